// C08 — limit/passes semantics and clean end-of-ammo on every provider.
//
// Oracle: X = min of the non-zero bounds among {limit, passes*E}; exactly X items,
// then end of ammo, Run returns nil, nobody stays blocked, nothing spins.
package c08

import (
	"context"
	"encoding/json"
	"fmt"
	"strings"
	"sync/atomic"
	"testing"
	"time"

	ag "verif/harness/internal/ammogen"
	"verif/harness/internal/fake"
	"verif/harness/internal/pand"
	"verif/harness/internal/provrun"
	"verif/harness/internal/vf"

	"github.com/yandex/pandora/core"
	"github.com/yandex/pandora/core/engine"
	"github.com/yandex/pandora/core/schedule"
	"pgregory.net/rapid"
)

var kinds = []string{"uri", "uripost", "raw", "jsonline", "jsonarray", "grpc/json", "http/scenario", "grpc/scenario", "json"}

type Case struct {
	Kind      string `json:"kind"`
	Preload   bool   `json:"preload"`
	Entries   int    `json:"entries"`
	Limit     int    `json:"limit"`
	Passes    int    `json:"passes"`
	Consumers int    `json:"consumers"`
	Engine    bool   `json:"through_engine"`
	// unbounded cells: pause between the consumers' last Acquire and the cancel, and (generic json provider) queue size
	SettleUs int `json:"settle_us,omitempty"`
	Queue    int `json:"ammo_queue_size,omitempty"`
	// unbounded cells, "live" drain: the consumers never stop acquiring by themselves - the provider is cancelled (or,
	// with BrokenTail, fails on a malformed entry after the good ones) while they are in or about to enter Acquire -
	// and Late more consumers call Acquire only after Run has returned.
	Live       bool `json:"live_consumers,omitempty"`
	Late       int  `json:"late_consumers,omitempty"`
	BrokenTail bool `json:"broken_tail,omitempty"`
}

// kinds whose file is read entry by entry while the provider runs: a malformed entry after good ones is met mid-run
func canBreak(k string) bool {
	return k == "uri" || k == "uripost" || k == "raw" || k == "jsonline" || k == "grpc/json" || k == "json"
}

func brokenTail(k string) string {
	switch k {
	case "uri":
		return "[broken header\n"
	case "uripost", "raw":
		return "notanumber /x tag\n"
	}
	return "{\"broken\n"
}

func isHTTP(k string) bool {
	return k == "uri" || k == "uripost" || k == "raw" || k == "jsonline" || k == "jsonarray"
}

func genCase(t *rapid.T) Case {
	c := Case{}
	c.Kind = rapid.SampledFrom(kinds).Draw(t, "kind")
	if isHTTP(c.Kind) {
		c.Preload = rapid.Bool().Draw(t, "preload")
	}
	c.Entries = rapid.IntRange(1, 5).Draw(t, "entries")
	switch rapid.SampledFrom([]string{"limit", "passes", "both", "none", "both"}).Draw(t, "bounds") {
	case "limit":
		c.Limit = rapid.IntRange(1, 2*c.Entries+1).Draw(t, "limit")
	case "passes":
		c.Passes = rapid.IntRange(1, 3).Draw(t, "passes")
	case "both":
		c.Limit = rapid.IntRange(1, 2*c.Entries+1).Draw(t, "limit")
		c.Passes = rapid.IntRange(1, 3).Draw(t, "passes")
	}
	c.Consumers = rapid.IntRange(1, 4).Draw(t, "consumers")
	c.Engine = rapid.IntRange(0, 2).Draw(t, "engine") == 0
	if c.Limit == 0 && c.Passes == 0 {
		c.SettleUs = rapid.SampledFrom([]int{0, 300, 3000, 20000}).Draw(t, "settleUs")
		switch rapid.SampledFrom([]string{"stop", "live", "live", "broken"}).Draw(t, "drain") {
		case "live":
			c.Live = true
		case "broken":
			c.Live, c.BrokenTail = true, canBreak(c.Kind)
		}
		if c.Live {
			c.Late = rapid.IntRange(0, 3).Draw(t, "late")
		}
	}
	if c.Kind == "json" {
		c.Queue = rapid.SampledFrom([]int{0, 1, 4, 64}).Draw(t, "queue")
	}
	return c
}

func simpleFile(format string, n int) ag.File {
	f := ag.File{Format: format}
	if format == "jsonarray" {
		f.Format = "jsonline"
		f.Layout.JSON = "array"
	}
	for i := 0; i < n; i++ {
		e := ag.Entry{Method: "GET", URI: fmt.Sprintf("/e%d", i), Tag: fmt.Sprintf("t%d", i)}
		switch f.Format {
		case "uripost":
			e.Method = "POST"
			e.Body = []byte(fmt.Sprintf("body%d", i))
		case "raw":
			e.Host = "h.example.com"
		}
		f.Items = append(f.Items, ag.Item{Entry: &e})
	}
	return f
}

// buildConf writes the ammo file(s) for the case and returns the provider config.
func buildConf(c Case) (conf map[string]any, cleanup func(), err error) {
	var files []string
	cleanup = func() {
		for _, f := range files {
			pand.Remove(f)
		}
	}
	write := func(ext string, data []byte) string {
		n := pand.WriteFile("c08", ext, data)
		files = append(files, n)
		return n
	}
	conf = map[string]any{}
	tail := ""
	if c.BrokenTail && canBreak(c.Kind) {
		tail = brokenTail(c.Kind)
	}
	if c.Limit > 0 {
		conf["limit"] = c.Limit
	}
	if c.Passes > 0 {
		conf["passes"] = c.Passes
	}
	switch {
	case isHTTP(c.Kind):
		f := simpleFile(c.Kind, c.Entries)
		conf["type"] = ag.ProviderType(f.Format)
		conf["file"] = write(".ammo", append(f.Render(), tail...))
		if c.Preload {
			conf["preload"] = true
		}
	case c.Kind == "grpc/json":
		var sb strings.Builder
		for i := 0; i < c.Entries; i++ {
			b, _ := json.Marshal(map[string]any{"tag": fmt.Sprintf("t%d", i), "call": "target.TargetService.Hello", "payload": map[string]any{"name": fmt.Sprintf("n%d", i)}})
			sb.Write(b)
			sb.WriteString("\n")
		}
		conf["type"] = "grpc/json"
		conf["file"] = write(".json", []byte(sb.String()+tail))
	case c.Kind == "http/scenario":
		var sb strings.Builder
		sb.WriteString("requests:\n  - name: r\n    method: GET\n    uri: /x\nscenarios:\n")
		for i := 0; i < c.Entries; i++ {
			fmt.Fprintf(&sb, "  - name: s%d\n    weight: 1\n    min_waiting_time: 0\n    requests:\n      - r(1)\n", i)
		}
		conf["type"] = "http/scenario"
		conf["file"] = write(".yaml", []byte(sb.String()))
	case c.Kind == "grpc/scenario":
		var sb strings.Builder
		sb.WriteString("calls:\n  - name: c\n    call: target.TargetService.Hello\n    payload: '{\"name\": \"x\"}'\nscenarios:\n")
		for i := 0; i < c.Entries; i++ {
			fmt.Fprintf(&sb, "  - name: s%d\n    weight: 1\n    min_waiting_time: 0\n    requests:\n      - c(1)\n", i)
		}
		conf["type"] = "grpc/scenario"
		conf["file"] = write(".yaml", []byte(sb.String()))
	case c.Kind == "json":
		var sb strings.Builder
		for i := 0; i < c.Entries; i++ {
			fmt.Fprintf(&sb, "{\"n\": %d}\n", i)
		}
		conf["type"] = "json"
		conf["source"] = map[string]any{"type": "file", "path": write(".json", []byte(sb.String()+tail))}
		if c.Queue > 0 {
			conf["ammo-queue-size"] = c.Queue
		}
	default:
		return nil, cleanup, fmt.Errorf("bad kind %s", c.Kind)
	}
	return conf, cleanup, nil
}

const hangDeadline = 5 * time.Second

func check(c Case, o *vf.Obs) error {
	conf, cleanup, err := buildConf(c)
	defer cleanup()
	if err != nil {
		return err
	}
	X := -1 // unbounded
	if c.Limit > 0 {
		X = c.Limit
	}
	if c.Passes > 0 && (X < 0 || c.Passes*c.Entries < X) {
		X = c.Passes * c.Entries
	}
	p, err := provrun.Build(conf)
	if err != nil {
		return fmt.Errorf("valid provider config rejected: %v (%v)", err, conf)
	}
	o.Class("kind_" + c.Kind)
	switch {
	case c.Limit > 0 && c.Passes > 0:
		o.Class(c.Kind + "/both")
	case c.Limit > 0:
		o.Class(c.Kind + "/limit_only")
	case c.Passes > 0:
		o.Class(c.Kind + "/passes_only")
	default:
		o.Class(c.Kind + "/none")
	}
	o.ClassIf(c.Preload, "preload")
	o.ClassIf(c.Entries == 1, "single_entry")
	o.ClassIf(c.Engine, "through_engine")
	if X >= 0 && !(c.Kind == "uri" && !c.Preload) {
		o.NonTrivial()
	}
	if X >= 0 && c.Engine {
		return checkEngine(c, p, X)
	}
	if X >= 0 {
		res, err := provrun.Drain(p, X+c.Consumers+3, c.Consumers, hangDeadline, nil)
		if err != nil {
			return fmt.Errorf("%s limit=%d passes=%d entries=%d: %v", c.Kind, c.Limit, c.Passes, c.Entries, err)
		}
		if len(res.Items) != X {
			return fmt.Errorf("%s (preload=%v) limit=%d passes=%d entries=%d: %d ammo delivered, expected min of the non-zero bounds = %d (Run error: %v, hung: %q)",
				c.Kind, c.Preload, c.Limit, c.Passes, c.Entries, len(res.Items), X, res.RunErr, res.Hung)
		}
		if res.Hung != "" {
			return fmt.Errorf("%s (preload=%v) limit=%d passes=%d entries=%d: after the bound was reached: %s (nobody may stay blocked, the provider must return by itself)",
				c.Kind, c.Preload, c.Limit, c.Passes, c.Entries, res.Hung)
		}
		if !res.EndSeen {
			return fmt.Errorf("%s: consumers never observed end of ammo", c.Kind)
		}
		if res.RunErr != nil {
			return fmt.Errorf("%s (preload=%v) limit=%d passes=%d entries=%d: provider finished with error %q after delivering its %d ammo, expected nil",
				c.Kind, c.Preload, c.Limit, c.Passes, c.Entries, res.RunErr, X)
		}
		return nil
	}
	// unbounded: take 3E+2, then cancel; everything must come back promptly
	want := 3*c.Entries + 2
	if c.Live {
		return checkLive(c, p, want, o)
	}
	o.ClassIf(c.SettleUs > 0, "cancel_after_consumers_stopped")
	o.ClassIf(c.SettleUs > 0, c.Kind+"/cancel_after_consumers_stopped")
	res, err := provrun.DrainSettle(p, want, c.Consumers, hangDeadline, time.Duration(c.SettleUs)*time.Microsecond, nil)
	if err != nil {
		return fmt.Errorf("%s unbounded, cancelled %dus after the consumers took their last ammo: %v", c.Kind, c.SettleUs, err)
	}
	if len(res.Items) != want {
		return fmt.Errorf("%s unbounded (limit=0, passes=0): only %d ammo delivered of the %d requested (Run error: %v)", c.Kind, len(res.Items), want, res.RunErr)
	}
	if res.Hung != "" {
		return fmt.Errorf("%s unbounded: %s", c.Kind, res.Hung)
	}
	if res.RunErr != nil && res.RunErr != context.Canceled && !strings.Contains(res.RunErr.Error(), "context canceled") {
		return fmt.Errorf("%s unbounded: Run returned %q after cancel (expected nil or the context error)", c.Kind, res.RunErr)
	}
	return nil
}

// checkLive: nobody stops acquiring by itself. Whatever makes Run return - the cancel that arrives while the consumers
// are acquiring, or a malformed entry - every consumer, also one that calls Acquire only afterwards, must come to end of
// ammo instead of staying blocked ("once ... it is cancelled a provider never keeps consumers blocked ... and returns
// promptly"; a failed provider has stopped for good just the same).
func checkLive(c Case, p core.Provider, want int, o *vf.Obs) error {
	o.Class("live_consumers")
	o.Class(c.Kind + "/live_consumers")
	o.ClassIf(c.Late > 0, "late_consumers")
	o.ClassIf(c.BrokenTail, "broken_tail")
	what := fmt.Sprintf("%s (preload=%v) unbounded, %d consumers acquiring until end of ammo, cancelled after %d ammo (+%dus)", c.Kind, c.Preload, c.Consumers, want, c.SettleUs)
	if c.BrokenTail {
		what = fmt.Sprintf("%s (preload=%v) unbounded, file of %d entries followed by a malformed one, %d consumers acquiring until end of ammo", c.Kind, c.Preload, c.Entries, c.Consumers)
	}
	res, err := provrun.DrainLive(p, want, c.Consumers, c.Late, hangDeadline, time.Duration(c.SettleUs)*time.Microsecond)
	if err != nil {
		return fmt.Errorf("%s: %v", what, err)
	}
	o.ClassIf(res.SelfStopped && res.RunErr != nil, "provider_failed_with_consumers_acquiring")
	if res.Hung != "" {
		return fmt.Errorf("%s: %s", what, res.Hung)
	}
	if !res.SelfStopped && res.RunErr != nil && res.RunErr != context.Canceled && !strings.Contains(res.RunErr.Error(), "context canceled") {
		return fmt.Errorf("%s: Run returned %q after cancel (expected nil or the context error)", what, res.RunErr)
	}
	if res.SelfStopped && res.RunErr == nil && !c.BrokenTail {
		return fmt.Errorf("%s: Run returned nil by itself after %d ammo although neither limit nor passes is set", what, res.Taken)
	}
	return nil
}

type countGun struct{ n *atomic.Int64 }

func (g countGun) Bind(core.Aggregator, core.GunDeps) error { return nil }
func (g countGun) Shoot(core.Ammo)                          { g.n.Add(1) }

func checkEngine(c Case, p core.Provider, X int) error {
	var shots atomic.Int64
	aggr := fake.NewAggregator(fake.AggPlan{})
	conf := engine.Config{Pools: []engine.InstancePoolConfig{{
		ID: "p", Provider: p, Aggregator: aggr,
		NewGun:          func() (core.Gun, error) { return countGun{&shots}, nil },
		NewRPSSchedule:  func() (core.Schedule, error) { return schedule.NewOnce(int64(X + 50)), nil },
		StartupSchedule: schedule.NewOnce(int64(c.Consumers)),
	}}}
	eng := engine.New(pand.NopLog(), pand.Metrics(), conf)
	ctx, cancel := context.WithCancel(context.Background())
	defer cancel()
	var runErr error
	ok, _ := vf.Deadline(hangDeadline, func() { runErr = eng.Run(ctx) })
	if !ok {
		cancel()
		return fmt.Errorf("%s (preload=%v) limit=%d passes=%d entries=%d: a pool over this provider did not finish within %v although only %d ammo exist (%d shots so far)",
			c.Kind, c.Preload, c.Limit, c.Passes, c.Entries, hangDeadline, X, shots.Load())
	}
	if runErr != nil {
		return fmt.Errorf("%s (preload=%v) limit=%d passes=%d entries=%d: the run ended with %q, expected success after %d shots (%d made)",
			c.Kind, c.Preload, c.Limit, c.Passes, c.Entries, runErr, X, shots.Load())
	}
	if int(shots.Load()) != X {
		return fmt.Errorf("%s (preload=%v) limit=%d passes=%d entries=%d: %d shots, expected %d", c.Kind, c.Preload, c.Limit, c.Passes, c.Entries, shots.Load(), X)
	}
	return nil
}

func TestBounds(t *testing.T) {
	pand.Init()
	r := vf.Start(t, "C08")
	vf.Check(r, genCase, check)
}
