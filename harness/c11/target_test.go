package c11

// How the target of an http / http/scenario pool is made and by what address the gun config names it.
//
// The http guns resolve their target when the gun section is decoded (PreResolveTargetAddr): an IP literal or a host
// name that can be reached at that moment is used as it is and `dns-cache` is switched off; a host name that cannot be
// reached yet ("we should not fail shooting, we should try to connect on every shoot") leaves `dns-cache: true` (the
// documented default) in force - the clients then dial through the DNS caching dialer, which "remembers remote address on
// first try". With `shared-client` one such client - one dialer - serves many instances.

import (
	"context"
	"fmt"
	"net"
	"sync"
	"syscall"

	"verif/harness/internal/target"
)

const (
	targetByIP       = ""          // 127.0.0.1:port
	targetByName     = "name"      // localhost:port, listening while the config is decoded
	targetByNameLate = "name_late" // localhost:port, nothing listens on the (reserved) port until the config is decoded
)

const soReusePort = 0xf // SO_REUSEPORT on linux

// httpTg is the scripted target of a pool of http guns.
type httpTg struct {
	c    Case
	addr string // what the gun config says

	mu     sync.Mutex
	tg     *target.HTTP
	hold   *target.GoAway // name_late: reserves the port (bound, never listening: connections are refused) until up()
	script func(seq int, r *target.Rec) target.Resp
}

func newHTTPTg(c Case, b *built) (*httpTg, error) {
	h := &httpTg{c: c}
	if c.TargetBy == targetByNameLate {
		hold, err := target.ListenGoAway(0)
		if err != nil {
			return nil, fmt.Errorf("reserving a port for the target: %v", err)
		}
		h.hold = hold
		_, port, _ := net.SplitHostPort(hold.HostPort())
		h.addr = net.JoinHostPort("localhost", port)
		b.up = h.up
	} else {
		h.tg = target.NewHTTP(false)
		h.addr = h.tg.Addr()
		if c.TargetBy == targetByName {
			_, port, _ := net.SplitHostPort(h.addr)
			h.addr = net.JoinHostPort("localhost", port)
		}
	}
	b.close = h.close
	return h, nil
}

// up makes the target listen on the reserved port (name_late: called once the pool config is decoded).
func (h *httpTg) up() error {
	h.mu.Lock()
	defer h.mu.Unlock()
	if h.tg != nil || h.hold == nil {
		return nil
	}
	lc := net.ListenConfig{Control: func(network, address string, c syscall.RawConn) error {
		var serr error
		if cerr := c.Control(func(fd uintptr) {
			serr = syscall.SetsockoptInt(int(fd), syscall.SOL_SOCKET, soReusePort, 1)
		}); cerr != nil {
			return cerr
		}
		return serr
	}}
	l, err := lc.Listen(context.Background(), "tcp4", h.hold.HostPort())
	if err != nil {
		return fmt.Errorf("the target could not listen on its reserved port %s: %v", h.hold.HostPort(), err)
	}
	h.tg = target.NewHTTPOn(l, false)
	h.tg.Reset(h.wrapped())
	return nil
}

func (h *httpTg) close() {
	h.mu.Lock()
	defer h.mu.Unlock()
	if h.tg != nil {
		h.tg.Close()
	}
	if h.hold != nil {
		_ = h.hold.Close()
	}
}

// wrapped: the script plus, with CloseEvery k, `Connection: close` on every k-th answer - the target drops the connection
// after that answer (the client is told so and dials again for its next request).
func (h *httpTg) wrapped() func(seq int, r *target.Rec) target.Resp {
	script, k := h.script, h.c.CloseEvery
	return func(seq int, r *target.Rec) target.Resp {
		resp := script(seq, r)
		if k > 0 && (seq+1)%k == 0 {
			hdr := map[string]string{"Connection": "close"}
			for key, v := range resp.Header {
				hdr[key] = v
			}
			resp.Header = hdr
		}
		return resp
	}
}

func (h *httpTg) reset(script func(seq int, r *target.Rec) target.Resp) {
	h.mu.Lock()
	defer h.mu.Unlock()
	h.script = script
	if h.tg != nil {
		h.tg.Reset(h.wrapped())
	}
}

func (h *httpTg) records() []target.Rec {
	h.mu.Lock()
	defer h.mu.Unlock()
	if h.tg == nil {
		return nil
	}
	return h.tg.Records()
}

// conns: connections the target accepted.
func (h *httpTg) conns() int64 {
	h.mu.Lock()
	defer h.mu.Unlock()
	if h.tg == nil {
		return 0
	}
	return h.tg.ConnsAccepted()
}

// gunConf: the gun section for this target.
func (h *httpTg) gunConf(typ string) map[string]any {
	// generous dial timeout: with all shards busy a loopback SYN may need a retransmit
	gun := map[string]any{"type": typ, "target": h.addr, "dial": map[string]any{"timeout": "20s"}}
	if h.c.NoKeepAlive {
		gun["disable-keep-alives"] = true // every shot dials
	}
	return gun
}
