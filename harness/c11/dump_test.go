package c11

// Canonical deep dump of a Go value, used to compare every shared definition a
// provider holds (scenario steps, header / metadata maps, payloads, variable
// storage, preloaded ammo) before and after a run.
//
// The dump is a sorted list of `path = value` lines. Unexported fields are
// read through unsafe (the value is only read, and only while no pandora
// goroutine is running). State that legitimately changes while shooting is
// skipped by type: locks, sync.Map caches, random sources, the [next]
// counters of mp.NextIterator, channels, funcs, loggers and contexts.

import (
	"fmt"
	"reflect"
	"sort"
	"strings"
	"unsafe"
)

var dumpSkipTypes = map[string]bool{
	"sync.Map":          true,
	"sync.Mutex":        true,
	"sync.RWMutex":      true,
	"sync.Pool":         true,
	"sync.Once":         true,
	"sync.WaitGroup":    true,
	"rand.Rand":         true, // math/rand
	"mp.NextIterator":   true, // [next] counters and the [rand] source: mutable by design
	"template.Template": true, // compiled template caches
	"zap.Logger":        true,
	"atomic.Uint64":     true,
	"atomic.Int64":      true,
	"bufio.Scanner":     true,
	"bufio.Reader":      true,
	"json.Decoder":      true,
}

type dumper struct {
	lines   []string
	visited map[uintptr]string
	budget  int
}

func deepDump(root any) []string {
	d := &dumper{visited: map[uintptr]string{}, budget: 200000}
	v := reflect.ValueOf(root)
	d.walk("", v)
	sort.Strings(d.lines)
	return d.lines
}

func (d *dumper) emit(path, val string) {
	if d.budget <= 0 {
		return
	}
	d.budget--
	d.lines = append(d.lines, path+" = "+val)
}

// rw returns a value that may be inspected even if it came from an unexported field.
func rw(v reflect.Value) reflect.Value {
	if v.CanInterface() {
		return v
	}
	if v.CanAddr() {
		return reflect.NewAt(v.Type(), unsafe.Pointer(v.UnsafeAddr())).Elem()
	}
	return v
}

func typeKey(t reflect.Type) string {
	s := t.String()
	return strings.TrimPrefix(s, "*")
}

func (d *dumper) walk(path string, v reflect.Value) {
	if d.budget <= 0 {
		return
	}
	if !v.IsValid() {
		d.emit(path, "<invalid>")
		return
	}
	v = rw(v)
	t := v.Type()
	if dumpSkipTypes[typeKey(t)] {
		return
	}
	switch v.Kind() {
	case reflect.Bool:
		d.emit(path, fmt.Sprintf("%v", v.Bool()))
	case reflect.Int, reflect.Int8, reflect.Int16, reflect.Int32, reflect.Int64:
		d.emit(path, fmt.Sprintf("%d", v.Int()))
	case reflect.Uint, reflect.Uint8, reflect.Uint16, reflect.Uint32, reflect.Uint64, reflect.Uintptr:
		d.emit(path, fmt.Sprintf("%d", v.Uint()))
	case reflect.Float32, reflect.Float64:
		d.emit(path, fmt.Sprintf("%v", v.Float()))
	case reflect.Complex64, reflect.Complex128:
		d.emit(path, fmt.Sprintf("%v", v.Complex()))
	case reflect.String:
		d.emit(path, fmt.Sprintf("%q", v.String()))
	case reflect.Chan, reflect.Func, reflect.UnsafePointer:
		return
	case reflect.Interface:
		if v.IsNil() {
			d.emit(path, "nil")
			return
		}
		e := v.Elem()
		d.walk(path+"("+e.Type().String()+")", e)
	case reflect.Ptr:
		if v.IsNil() {
			d.emit(path, "nil")
			return
		}
		if dumpSkipTypes[typeKey(t.Elem())] {
			return
		}
		p := v.Pointer()
		if first, ok := d.visited[p]; ok {
			d.emit(path, "-> "+first)
			return
		}
		d.visited[p] = path
		d.walk(path+"*", v.Elem())
	case reflect.Slice:
		if v.IsNil() {
			d.emit(path, "nil-slice")
			return
		}
		if t.Elem().Kind() == reflect.Uint8 {
			var b []byte
			if v.CanInterface() {
				b = v.Bytes()
			} else {
				b = make([]byte, v.Len())
				for i := range b {
					b[i] = byte(v.Index(i).Uint())
				}
			}
			if len(b) > 256 {
				// long buffers (ammo with big bodies): length, checksum and both ends
				d.emit(path, fmt.Sprintf("bytes len=%d fnv=%016x %q..%q", len(b), fnv64(b), b[:48], b[len(b)-48:]))
				return
			}
			d.emit(path, fmt.Sprintf("bytes %q", b))
			return
		}
		d.emit(path+".len", fmt.Sprint(v.Len()))
		for i := 0; i < v.Len(); i++ {
			d.walk(fmt.Sprintf("%s[%d]", path, i), v.Index(i))
		}
	case reflect.Array:
		for i := 0; i < v.Len(); i++ {
			d.walk(fmt.Sprintf("%s[%d]", path, i), v.Index(i))
		}
	case reflect.Map:
		if v.IsNil() {
			d.emit(path, "nil-map")
			return
		}
		d.emit(path+".len", fmt.Sprint(v.Len()))
		it := v.MapRange()
		for it.Next() {
			k := it.Key()
			ks := fmt.Sprintf("%v", keyString(k))
			d.walk(fmt.Sprintf("%s[%s]", path, ks), it.Value())
		}
	case reflect.Struct:
		// non-addressable struct (map element, interface content): copy so that unexported fields can be read
		if !v.CanAddr() {
			c := reflect.New(t).Elem()
			if v.CanInterface() {
				c.Set(v)
				v = c
			}
		}
		for i := 0; i < t.NumField(); i++ {
			f := t.Field(i)
			fv := v.Field(i)
			if !fv.CanInterface() && !fv.CanAddr() {
				// unreadable without an address: fall back to the formatted value
				d.emit(path+"."+f.Name, fmt.Sprintf("%#v", fv))
				continue
			}
			d.walk(path+"."+f.Name, fv)
		}
	default:
		d.emit(path, fmt.Sprintf("<%s>", v.Kind()))
	}
}

func fnv64(b []byte) uint64 {
	h := uint64(14695981039346656037)
	for _, c := range b {
		h = (h ^ uint64(c)) * 1099511628211
	}
	return h
}

func keyString(k reflect.Value) string {
	k = rw(k)
	switch k.Kind() {
	case reflect.String:
		return fmt.Sprintf("%q", k.String())
	case reflect.Int, reflect.Int8, reflect.Int16, reflect.Int32, reflect.Int64:
		return fmt.Sprint(k.Int())
	case reflect.Uint, reflect.Uint8, reflect.Uint16, reflect.Uint32, reflect.Uint64:
		return fmt.Sprint(k.Uint())
	}
	if k.CanInterface() {
		return fmt.Sprintf("%#v", k.Interface())
	}
	return fmt.Sprintf("%#v", k)
}

// fieldByName reads a (possibly unexported) field of the struct p points to.
func fieldByName(p any, name string) (reflect.Value, bool) {
	v := reflect.ValueOf(p)
	for v.Kind() == reflect.Ptr || v.Kind() == reflect.Interface {
		if v.IsNil() {
			return reflect.Value{}, false
		}
		v = v.Elem()
	}
	if v.Kind() != reflect.Struct {
		return reflect.Value{}, false
	}
	f := v.FieldByName(name)
	if !f.IsValid() {
		return reflect.Value{}, false
	}
	return rw(f), true
}

// diffDumps returns up to n human-readable differences between two dumps.
func diffDumps(before, after []string, n int) []string {
	split := func(ls []string) map[string]string {
		m := make(map[string]string, len(ls))
		for _, l := range ls {
			if i := strings.Index(l, " = "); i >= 0 {
				m[l[:i]] = l[i+3:]
			}
		}
		return m
	}
	b, a := split(before), split(after)
	var keys []string
	for k := range b {
		keys = append(keys, k)
	}
	for k := range a {
		if _, ok := b[k]; !ok {
			keys = append(keys, k)
		}
	}
	sort.Strings(keys)
	var out []string
	for _, k := range keys {
		bv, bok := b[k]
		av, aok := a[k]
		switch {
		case bok && aok && bv != av:
			out = append(out, fmt.Sprintf("%s: before the run %s, after the run %s", k, bv, av))
		case bok && !aok:
			out = append(out, fmt.Sprintf("%s: %s before the run, gone after it", k, bv))
		case !bok && aok:
			out = append(out, fmt.Sprintf("%s: absent before the run, %s after it", k, av))
		}
		if len(out) >= n {
			break
		}
	}
	return out
}
