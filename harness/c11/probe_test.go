package c11

// In-process probes installed between the real engine and the real components of
// a decoded pool: a wrapping gun factory (identity / Bind / overlapping Shoot) and
// a wrapping provider (an ammo object is held by one instance at a time).

import (
	"context"
	"fmt"
	"io"
	"reflect"
	"sync"
	"sync/atomic"
	"time"

	"github.com/yandex/pandora/core"
	"github.com/yandex/pandora/core/warmup"
)

type violations struct {
	mu   sync.Mutex
	list []string
	// prefix names the pool in an engine of several pools ("" in an engine of one pool)
	prefix string
}

func (v *violations) add(format string, a ...any) {
	v.mu.Lock()
	if len(v.list) < 20 {
		v.list = append(v.list, v.prefix+fmt.Sprintf(format, a...))
	}
	v.mu.Unlock()
}

func (v *violations) get() []string {
	v.mu.Lock()
	defer v.mu.Unlock()
	return append([]string(nil), v.list...)
}

// ---------------- guns ----------------

type gunProbes struct {
	viol *violations

	mu       sync.Mutex
	guns     []*probeGun
	innerPtr map[uintptr]int // inner gun object -> number of times the factory returned it

	// The engine itself orders instances by two atomic counters right before and
	// after every Shoot (metrics Request/Response), so one more atomic at the same
	// two points adds no happens-before edge the race detector did not already have.
	active      atomic.Int32
	maxActive   atomic.Int32
	overlapping atomic.Int64 // shots that began while another instance was shooting
	shots       atomic.Int64

	// engines of several pools: the id of this pool, the probes of the other pools, shots of this pool that began while a
	// gun of another pool was shooting, and when the gun factory of this pool was entered first / left last
	poolID              string
	others              []*gunProbes
	acrossPools         atomic.Int64
	firstCtor, lastCtor time.Time
}

// ctorSpan: the time from the first call of the pool's gun factory (the warm-up gun) to the return of the last one.
func (p *gunProbes) ctorSpan() (from, to time.Time, ok bool) {
	p.mu.Lock()
	defer p.mu.Unlock()
	return p.firstCtor, p.lastCtor, !p.firstCtor.IsZero()
}

type probeGun struct {
	p     *gunProbes
	inner core.Gun
	idx   int

	inShot     atomic.Int32
	binds      atomic.Int32
	instanceID atomic.Int64
	shots      atomic.Int64
	warmups    atomic.Int32
	closed     atomic.Int32
}

func newGunProbes(v *violations) *gunProbes {
	return &gunProbes{viol: v, innerPtr: map[uintptr]int{}}
}

func (p *gunProbes) wrapFactory(f func() (core.Gun, error)) func() (core.Gun, error) {
	return func() (core.Gun, error) {
		began := time.Now()
		g, err := f()
		if err != nil || g == nil {
			return g, err
		}
		pg := &probeGun{p: p, inner: g}
		pg.instanceID.Store(-1)
		p.mu.Lock()
		if p.firstCtor.IsZero() {
			p.firstCtor = began
		}
		p.lastCtor = time.Now()
		pg.idx = len(p.guns)
		p.guns = append(p.guns, pg)
		if rv := reflect.ValueOf(g); rv.Kind() == reflect.Ptr {
			p.innerPtr[rv.Pointer()]++
		}
		p.mu.Unlock()
		return pg, nil
	}
}

func (g *probeGun) Bind(aggr core.Aggregator, deps core.GunDeps) error {
	if n := g.binds.Add(1); n > 1 {
		g.p.viol.add("gun object #%d was bound %d times (second time to instance %d): instances share one gun", g.idx, n, deps.InstanceID)
	}
	g.instanceID.Store(int64(deps.InstanceID))
	if g.p.poolID != "" && deps.PoolID != g.p.poolID {
		g.p.viol.add("gun object #%d, made by the gun factory of pool %q, was bound to instance %d of pool %q: an instance got the gun of another pool", g.idx, g.p.poolID, deps.InstanceID, deps.PoolID)
	}
	return g.inner.Bind(aggr, deps)
}

func (g *probeGun) Shoot(a core.Ammo) {
	if !g.inShot.CompareAndSwap(0, 1) {
		g.p.viol.add("gun object #%d (instance %d) was asked to Shoot while a Shoot on the same gun was still in progress", g.idx, g.instanceID.Load())
		g.inner.Shoot(a)
		return
	}
	if g.binds.Load() == 0 {
		g.p.viol.add("gun object #%d was asked to Shoot without having been bound", g.idx)
	}
	n := g.p.active.Add(1)
	if n > 1 {
		g.p.overlapping.Add(1)
	}
	for _, o := range g.p.others {
		// (the engine's request / response counters are one pair of atomics for all pools: no new ordering here either)
		if o.active.Load() > 0 {
			g.p.acrossPools.Add(1)
			break
		}
	}
	for {
		m := g.p.maxActive.Load()
		if n <= m || g.p.maxActive.CompareAndSwap(m, n) {
			break
		}
	}
	g.shots.Add(1)
	g.p.shots.Add(1)
	defer func() {
		g.p.active.Add(-1)
		g.inShot.Store(0)
	}()
	g.inner.Shoot(a)
}

func (g *probeGun) WarmUp(opts *warmup.Options) (any, error) {
	g.warmups.Add(1)
	if w, ok := g.inner.(warmup.WarmedUp); ok {
		return w.WarmUp(opts)
	}
	return nil, nil
}

func (g *probeGun) Close() error {
	g.closed.Add(1)
	if c, ok := g.inner.(io.Closer); ok {
		return c.Close()
	}
	return nil
}

var _ warmup.WarmedUp = (*probeGun)(nil)
var _ io.Closer = (*probeGun)(nil)

type gunReport struct {
	FactoryCalls int   `json:"factory_calls"`
	Bound        int   `json:"guns_bound"`
	Shots        int64 `json:"shots"`
	MaxActive    int32 `json:"max_concurrent_shots"`
	Overlapping  int64 `json:"shots_begun_while_another_was_in_progress"`
	GunsShooting int   `json:"guns_that_shot"`
	AcrossPools  int64 `json:"shots_begun_while_a_gun_of_another_pool_was_shooting,omitempty"`
}

// verify judges the identity part after the run (instancesStarted = engine metric InstanceStart; < 0 in an engine of
// several pools, whose metric counts the instances of all pools: runRound judges the sum).
func (p *gunProbes) verify(instancesStarted int64) gunReport {
	p.mu.Lock()
	defer p.mu.Unlock()
	rep := gunReport{FactoryCalls: len(p.guns), Shots: p.shots.Load(), MaxActive: p.maxActive.Load(), Overlapping: p.overlapping.Load(),
		AcrossPools: p.acrossPools.Load()}
	ids := map[int64]int{}
	for _, g := range p.guns {
		if g.binds.Load() > 0 {
			rep.Bound++
			id := g.instanceID.Load()
			if prev, dup := ids[id]; dup {
				p.viol.add("gun objects #%d and #%d were both bound to instance id %d", prev, g.idx, id)
			}
			ids[id] = g.idx
		} else if g.shots.Load() > 0 {
			p.viol.add("gun object #%d fired %d shots but was never bound", g.idx, g.shots.Load())
		}
		if g.shots.Load() > 0 {
			rep.GunsShooting++
		}
	}
	for ptr, n := range p.innerPtr {
		if n > 1 {
			p.viol.add("the gun factory returned the same gun object (%#x) %d times: instances do not own their gun", ptr, n)
		}
	}
	if instancesStarted >= 0 && int64(rep.Bound) != instancesStarted {
		p.viol.add("%d instances were started but %d gun objects were bound: not one gun per instance", instancesStarted, rep.Bound)
	}
	// one extra gun is built by the pool for WarmUp only
	if rep.FactoryCalls != rep.Bound && rep.FactoryCalls != rep.Bound+1 {
		p.viol.add("gun factory was called %d times for %d started instances (expected one per instance plus at most one warm-up gun)", rep.FactoryCalls, rep.Bound)
	}
	return rep
}

// ---------------- provider ----------------

type probeProvider struct {
	inner core.Provider
	viol  *violations

	mu       sync.Mutex
	held     map[uintptr]int
	acquired int64

	// onFirst runs once, after the first ammo arrived and before any ammo is handed to an instance
	// (providers that load their ammo inside Run have nothing to dump before that).
	first   sync.Once
	onFirst func()

	// mark > 0: the times at which the first and the mark-th ammo were acquired are kept (the span of a storm of discarded shots)
	mark            int64
	firstAt, markAt time.Time
}

func newProbeProvider(inner core.Provider, v *violations) *probeProvider {
	return &probeProvider{inner: inner, viol: v, held: map[uintptr]int{}}
}

func (p *probeProvider) Run(ctx context.Context, deps core.ProviderDeps) error {
	return p.inner.Run(ctx, deps)
}

func ammoPtr(a core.Ammo) (uintptr, bool) {
	rv := reflect.ValueOf(a)
	if rv.IsValid() && rv.Kind() == reflect.Ptr && !rv.IsNil() {
		return rv.Pointer(), true
	}
	return 0, false
}

func (p *probeProvider) Acquire() (core.Ammo, bool) {
	var a core.Ammo
	var ok bool
	got := false
	p.first.Do(func() {
		a, ok = p.inner.Acquire()
		got = true
		if p.onFirst != nil {
			p.onFirst()
		}
	})
	if !got {
		a, ok = p.inner.Acquire()
	}
	if ok {
		if ptr, isPtr := ammoPtr(a); isPtr {
			p.mu.Lock()
			p.acquired++
			p.stamp()
			p.held[ptr]++
			n := p.held[ptr]
			p.mu.Unlock()
			if n > 1 {
				p.viol.add("the provider handed out ammo object %#x (%T) while %d other instance(s) still held it", ptr, a, n-1)
			}
		} else {
			p.mu.Lock()
			p.acquired++
			p.stamp()
			p.mu.Unlock()
		}
	}
	return a, ok
}

// stamp (under mu) keeps the times of the first and the mark-th acquisition.
func (p *probeProvider) stamp() {
	if p.mark > 0 && (p.acquired == 1 || p.acquired == p.mark) {
		now := time.Now()
		if p.acquired == 1 {
			p.firstAt = now
		}
		if p.acquired == p.mark {
			p.markAt = now
		}
	}
}

// span returns when, counted from t0, the first and the mark-th ammo were acquired (ok = both happened).
func (p *probeProvider) span(t0 time.Time) (from, to time.Duration, ok bool) {
	p.mu.Lock()
	defer p.mu.Unlock()
	if p.firstAt.IsZero() || p.markAt.IsZero() {
		return 0, 0, false
	}
	return p.firstAt.Sub(t0), p.markAt.Sub(t0), true
}

func (p *probeProvider) Release(a core.Ammo) {
	if ptr, isPtr := ammoPtr(a); isPtr {
		p.mu.Lock()
		unheld := p.held[ptr] <= 0
		if !unheld {
			p.held[ptr]--
			if p.held[ptr] == 0 {
				delete(p.held, ptr)
			}
		}
		p.mu.Unlock()
		if unheld {
			// core.Provider: "Release notifies that ammo usage is finished, and it can be reused. Instance MUST NOT retain
			// references to released ammo" - this object went back to the provider before (and may be another instance's by now)
			p.viol.add("an instance released ammo object %#x (%T) that no instance holds: it had been released already and is the provider's to hand out again", ptr, a)
		}
	}
	p.inner.Release(a)
}

func (p *probeProvider) acquiredCount() int64 {
	p.mu.Lock()
	defer p.mu.Unlock()
	return p.acquired
}
