// C11 — instance isolation and data-race freedom of all built-in components.
//
// Every generated case is one pool (http, http/scenario, grpc, grpc/scenario; real
// provider, gun, schedule and phout / jsonlines aggregator, built by
// config.DecodeAndValidate) with 2..16 instances, run by the REAL engine against an
// in-process target; about a quarter of the cases are engines of 2-4 such pools
// (Case.Siblings: own gun, provider, target, files and schedules each), all run by ONE
// engine at once and each judged by the same oracle. The case is executed in a CHILD process (this test binary
// re-executed with -test.run ^TestChild$, built with -race; a race report makes it exit with code 66):
//
//	(a) no race report, no runtime fatal error, no unexpected exit of the child;
//	(b) probes around the real gun factory: one gun object per instance, bound once,
//	    never two overlapping Shoot calls on one gun; around the real provider: an ammo object is
//	    held by one instance at a time and is given back once (also when discard_overflow drops the shot);
//	(c) a deep dump of every shared definition the provider holds (scenario steps,
//	    header / metadata maps, payloads, variable storage, preloaded ammo) is the
//	    same before and after the run;
//	(d) the target judges per-invocation consistency: values it issued to one
//	    invocation are never presented by another, values rendered from one row /
//	    one variable arrive together.
package c11

import (
	"bytes"
	"context"
	"encoding/json"
	"errors"
	"fmt"
	"os"
	"os/exec"
	"path/filepath"
	"reflect"
	"regexp"
	"sort"
	"strings"
	"sync"
	"sync/atomic"
	"testing"
	"time"

	"verif/harness/internal/pand"
	"verif/harness/internal/vf"

	"github.com/yandex/pandora/core"
	"github.com/yandex/pandora/core/engine"
	"go.uber.org/zap"
	"go.uber.org/zap/zapcore"
	"go.uber.org/zap/zaptest/observer"
	"pgregory.net/rapid"
)

// Result is what the child reports about one case.
type Result struct {
	Violations       []string  `json:"violations,omitempty"`
	HarnessErr       string    `json:"harness_error,omitempty"`
	RunErr           string    `json:"run_error,omitempty"`
	Guns             gunReport `json:"guns"`
	InstancesStarted int64     `json:"instances_started"`
	Served           int       `json:"requests_served_by_target"`
	Samples          int       `json:"samples_written"`
	DumpLines        int       `json:"shared_definition_dump_lines"`
	Changed          []string  `json:"shared_definition_changes,omitempty"`
	Rounds           int       `json:"rounds"`
	Logged           []string  `json:"warnings_logged,omitempty"`
	TransportErrors  int       `json:"transport_errors"`
	StepFailures     int       `json:"invocations_dropped_by_a_failed_postprocessor,omitempty"`
	Discarded        int       `json:"shots_discarded_as_overflow,omitempty"`
	DiscardedOverlap int       `json:"shots_discarded_in_rounds_with_overlapping_shots,omitempty"`
	File             string    `json:"file,omitempty"`
	// storms of discarded shots: when (ms after the run began) the last round's storm began and ended, and in how many
	// rounds it went on across the 1 s mark, at which the aggregators flush their buffers for the first time
	StormFromMs      int64 `json:"storm_of_discarded_shots_from_ms,omitempty"`
	StormToMs        int64 `json:"storm_of_discarded_shots_to_ms,omitempty"`
	StormAcrossFlush int   `json:"storms_across_the_periodic_flush,omitempty"`
	ElapsedMs        int64 `json:"run_ms,omitempty"`
	// rounds in which the http gun section logged that it could not pre-resolve its target when it was decoded (so
	// `dns-cache` stayed on and the clients dial through the DNS caching dialer), connections the http target accepted, and
	// rounds in which it accepted more connections than there are instances while shots overlapped
	PreResolveFailed int   `json:"rounds_target_not_pre_resolved,omitempty"`
	Conns            int64 `json:"connections_accepted_by_target,omitempty"`
	RedialOverlap    int   `json:"rounds_redialing_while_shots_overlap,omitempty"`
	// rounds after which the gun's answ log file was there / held something
	AnswLogFiles   int `json:"rounds_answ_log_file_present,omitempty"`
	AnswLogWritten int `json:"rounds_answ_log_file_not_empty,omitempty"`
	// engines of several pools: what the child reports about the sibling pools (in the order of Case.Siblings; violations of
	// all pools are listed in Violations of the case), the largest number of pools with overlapping shots of their own in one
	// round, shots that began while a gun of another pool was shooting, and the rounds in which the pools made their guns
	// side by side (the gun factory calls of one pool began before those of another ended, and the other way round)
	Siblings         []*Result `json:"sibling_pools,omitempty"`
	PoolsOverlapping int       `json:"pools_with_overlapping_shots,omitempty"`
	AcrossPools      int64     `json:"shots_begun_while_a_gun_of_another_pool_was_shooting,omitempty"`
	CtorsSideBySide  int       `json:"rounds_pools_made_their_guns_side_by_side,omitempty"`
}

const (
	envChildCase   = "C11_CHILD_CASE"
	envChildResult = "C11_CHILD_RESULT"
	raceExitCode   = 66
)

// sharedRoots are the fields of a provider object that hold definitions all instances share.
var sharedRoots = []string{"ammos", "cfg", "Config"}

func dumpShared(provider any) []string {
	var out []string
	for _, name := range sharedRoots {
		if f, ok := fieldByName(provider, name); ok {
			for _, l := range deepDump(f.Interface()) {
				out = append(out, name+l)
			}
		}
	}
	// the http/json decoder keeps the decoded ammo of a JSON-array file and serves the same objects every pass
	if dec, ok := fieldByName(provider, "Decoder"); ok && dec.Kind() == reflect.Interface && !dec.IsNil() {
		if f, ok := fieldByName(dec.Interface(), "ammos"); ok {
			for _, l := range deepDump(f.Interface()) {
				out = append(out, "Decoder.ammos"+l)
			}
		}
	}
	return out
}

// poolRun is one pool of the engine under test together with its probes.
type poolRun struct {
	c    Case
	id   string
	res  *Result // what the child reports about this pool (the first pool: the Result of the case)
	viol *violations
	b    *built
	gp   *gunProbes
	pp   *probeProvider
	real core.Provider
	// before: the deep dump of the shared definitions before any instance held an ammo
	before    []string
	transport int
}

func (pr *poolRun) target() string {
	t, _ := pr.b.pool["gun"].(map[string]any)["target"].(string)
	return t
}

// ctxString: the string field `key` of a logged entry ("" = none).
func ctxString(fields []zapcore.Field, key string) string {
	for _, f := range fields {
		if f.Key == key && f.Type == zapcore.StringType {
			return f.String
		}
	}
	return ""
}

// runRound builds the pools of the case - the pool itself and its siblings, if any -, and runs them once through ONE real
// engine with all probes; every pool is judged by the same oracle.
func runRound(c Case, res *Result) {
	cases := c.pools()
	multi := len(cases) > 1
	for len(res.Siblings) < len(cases)-1 {
		res.Siblings = append(res.Siblings, &Result{})
	}
	wd, werr := os.Getwd()
	if werr != nil {
		res.HarnessErr = "working directory: " + werr.Error()
		return
	}
	prs := make([]*poolRun, len(cases))
	for i, pc := range cases {
		pr := &poolRun{c: pc, id: poolID(i), res: res, viol: &violations{}}
		if i > 0 {
			pr.res = res.Siblings[i-1]
		}
		if multi {
			pr.viol.prefix = fmt.Sprintf("pool %q (%s): ", pr.id, pc.Kind)
		}
		prs[i] = pr
	}
	first := prs[0]
	viol := first.viol
	defer func() {
		for _, pr := range prs {
			res.Violations = append(res.Violations, pr.viol.get()...)
		}
	}()
	var pools []any
	var texts []string
	for _, pr := range prs {
		b, err := build(pr.c, pr.id, wd, pr.viol)
		if err != nil {
			res.HarnessErr = "build: " + err.Error()
			return
		}
		defer b.cleanup()
		pr.b = b
		pools = append(pools, b.pool)
		if multi {
			texts = append(texts, fmt.Sprintf("--- pool %q (%s) ---", pr.id, pr.c.Kind))
		}
		texts = append(texts, b.text)
	}
	res.File = strings.Join(texts, "\n")
	var conf engine.Config
	// what the components say through the global logger while the config is decoded (the http guns: a target that cannot be
	// pre-resolved)
	globalCore, globalLogs := observer.New(zapcore.WarnLevel)
	restoreGlobal := zap.ReplaceGlobals(zap.New(globalCore))
	derr := pand.Decode(map[string]any{"pools": pools}, &conf)
	restoreGlobal()
	if derr != nil {
		res.HarnessErr = fmt.Sprintf("generated pool config rejected: %v\n%s", derr, res.File)
		return
	}
	if len(conf.Pools) != len(prs) {
		res.HarnessErr = fmt.Sprintf("%d pools were decoded from a config of %d", len(conf.Pools), len(prs))
		return
	}
	notResolved := map[*poolRun]bool{}
	for _, e := range globalLogs.All() {
		if !strings.Contains(e.Message, "pre resolve failed") {
			continue
		}
		for _, pr := range prs {
			// (the warning names the target; the pools of an engine have targets of their own)
			if !multi || ctxString(e.Context, "target") == pr.target() {
				notResolved[pr] = true
				break
			}
		}
	}
	for pr := range notResolved {
		pr.res.PreResolveFailed++
	}
	for _, pr := range prs {
		if pr.b.up != nil {
			// the target comes up between the reading of the config and the run
			if err := pr.b.up(); err != nil {
				res.HarnessErr = err.Error()
				return
			}
		}
	}
	for i, pr := range prs {
		pc := &conf.Pools[i]
		pr.gp = newGunProbes(pr.viol)
		pc.NewGun = pr.gp.wrapFactory(pc.NewGun)
		pr.real = pc.Provider
		pr.pp = newProbeProvider(pr.real, pr.viol)
		pc.Provider = pr.pp
		if bh := pr.c.Behind; bh != nil {
			// core.Schedule: "Start SHOULD be called once, before any Next call" - the engine leaves it to the first Next; here
			// the pool's schedule is started in the past, so the sections that lie before the run are overdue from the beginning
			newSchedule := pc.NewRPSSchedule
			pc.NewRPSSchedule = func() (core.Schedule, error) {
				s, err := newSchedule()
				if err == nil && s != nil {
					s.Start(time.Now().Add(-time.Duration(bh.Ms) * time.Millisecond))
				}
				return s, err
			}
		}
		pr.before = dumpShared(pr.real)
		if pr.c.Kind == kindHTTP {
			// the http provider reads (preload: all of) its ammo inside Run: the baseline is taken when the
			// first ammo arrives, while no instance holds one yet
			pr := pr
			pr.pp.onFirst = func() { pr.before = dumpShared(pr.real) }
		}
	}
	if multi {
		for _, pr := range prs {
			pr.gp.poolID = pr.id
			for _, o := range prs {
				if o != pr {
					pr.gp.others = append(pr.gp.others, o.gp)
				}
			}
		}
	}
	m := pand.Metrics()
	// Warn level and above only: a logger that accepts Debug switches the guns into their verbose mode.
	logCore, logs := observer.New(zapcore.WarnLevel)
	eng := engine.New(zap.New(logCore), m, conf)
	var runErr error
	if c.storm() {
		first.pp.mark = int64(c.Behind.certain())
	}
	t0 := time.Now()
	ok, stacks := vf.Deadline(90*time.Second, func() {
		runErr = eng.Run(context.Background())
		eng.Wait()
	})
	res.ElapsedMs = time.Since(t0).Milliseconds()
	if from, to, ok := first.pp.span(t0); ok {
		res.StormFromMs, res.StormToMs = from.Milliseconds(), to.Milliseconds()
		// the aggregators flush every second, counted from the start of the pool
		for mark := time.Second; mark < to; mark += time.Second {
			if from < mark-20*time.Millisecond && to > mark+20*time.Millisecond {
				res.StormAcrossFlush++
				break
			}
		}
	}
	if !ok {
		viol.add("the pool run did not finish within 90s (normal: well under a second)\n%s", stacks)
		return
	}
	if runErr != nil {
		res.RunErr = runErr.Error()
		viol.add("the pool run failed: %v", runErr)
	}
	for _, e := range logs.All() {
		// every pool logs through a logger that carries its id (engine: log.With("pool", id))
		pr := first
		if id := ctxString(e.Context, "pool"); id != "" {
			for _, o := range prs {
				if o.id == id {
					pr = o
				}
			}
		}
		msg := e.Message
		for _, f := range e.Context {
			if f.Key == "error" {
				if err, ok := f.Interface.(error); ok && err != nil {
					msg += ": " + err.Error()
				} else if f.String != "" {
					msg += ": " + f.String
				}
			}
		}
		if len(pr.res.Logged) < 12 {
			pr.res.Logged = append(pr.res.Logged, e.Level.String()+" "+msg)
		}
		if strings.Contains(msg, "missing address") {
			// (net: "dial tcp: missing address") no load on the machine empties an address
			pr.viol.add("a gun dialled an empty address, the gun config names the target %v: %s %s", pr.target(), e.Level, msg)
		} else if isTransportError(msg) {
			pr.transport++
		} else if isDroppedInvocation(pr.c, e.Level, msg) {
			pr.res.StepFailures++
		} else {
			pr.viol.add("the run logged a failure that is not a transport error (the target answers every request properly): %s %s", e.Level, msg)
		}
	}
	started := m.InstanceStart.Get()
	if !multi {
		first.judge(started)
		return
	}
	bound, poolsOverlapping := int64(0), 0
	for _, pr := range prs {
		rep := pr.judge(-1)
		bound += int64(rep.Bound)
		if rep.Bound > pr.c.Instances {
			pr.viol.add("%d gun objects were bound, the startup schedule of the pool starts %d instances", rep.Bound, pr.c.Instances)
		}
		if rep.MaxActive >= 2 {
			poolsOverlapping++
		}
		res.AcrossPools += rep.AcrossPools
	}
	if bound != started {
		viol.add("%d instances were started by the engine but %d gun objects were bound in its %d pools: not one gun per instance", started, bound, len(prs))
	}
	res.PoolsOverlapping = max(res.PoolsOverlapping, poolsOverlapping)
	// did the pools make their guns side by side? (from the first call of a pool's gun factory - its warm-up gun - to the
	// return of the last one - the gun of its last instance)
	side := false
	for i, a := range prs {
		af, at, aok := a.gp.ctorSpan()
		for _, b := range prs[i+1:] {
			bf, bt, bok := b.gp.ctorSpan()
			if aok && bok && af.Before(bt) && bf.Before(at) {
				side = true
			}
		}
	}
	if side {
		res.CtorsSideBySide++
	}
}

// judge holds what the run left of this pool against the oracle (instancesStarted: see gunProbes.verify).
func (pr *poolRun) judge(instancesStarted int64) gunReport {
	c, b, res, viol, pp := pr.c, pr.b, pr.res, pr.viol, pr.pp
	res.TransportErrors += pr.transport
	b.strict = pr.transport == 0
	after := dumpShared(pr.real)
	res.DumpLines = len(after)
	if changes := diffDumps(pr.before, after, 8); len(changes) > 0 {
		res.Changed = changes
		viol.add("shared definitions held by the provider were altered by the run (%d dump lines compared): %s", len(after), strings.Join(changes, " ;; "))
	}
	rep := pr.gp.verify(instancesStarted)
	res.InstancesStarted = instancesStarted
	if instancesStarted < 0 {
		res.InstancesStarted = int64(rep.Bound) // (an engine of several pools counts the instances of all of them together)
	}
	// keep the strongest overlap evidence over the rounds
	if rep.MaxActive > res.Guns.MaxActive {
		res.Guns.MaxActive = rep.MaxActive
	}
	res.Guns.Overlapping += rep.Overlapping
	res.Guns.Shots += rep.Shots
	res.Guns.AcrossPools += rep.AcrossPools
	res.Guns.FactoryCalls, res.Guns.Bound, res.Guns.GunsShooting = rep.FactoryCalls, rep.Bound, rep.GunsShooting
	// every acquired ammo is either shot or, with discard_overflow, dropped by an instance that is behind the schedule
	discarded := int(pp.acquiredCount() - rep.Shots)
	// (also without a schedule started in the past: on a stalled machine the instances fall 2 s behind any schedule)
	if discarded < 0 || !c.DiscardOverflow {
		discarded = 0 // judged below: the number of shots is wrong
	}
	b.discarded = discarded
	res.Discarded += discarded
	if rep.MaxActive >= 2 {
		res.DiscardedOverlap += discarded
	}
	served := b.finish()
	res.Served += served
	res.Conns += b.conns
	if b.conns > res.InstancesStarted+1 && rep.MaxActive >= 2 {
		res.RedialOverlap++
	}
	samples, tags, discardedSamples := readOutput(c, b.outFile, viol)
	res.Samples += samples
	if b.strict && samples != served+discarded {
		viol.add("the target served %d requests and %d shots were discarded as overflow, the %s aggregator wrote %d samples: every request a gun sends and every discarded shot is reported exactly once", served, discarded, c.Agg, samples)
	}
	if c.Agg == "phout" && discardedSamples != discarded {
		viol.add("%d ammo were acquired and not shot (discard_overflow), phout holds %d samples tagged %q", discarded, discardedSamples, "discarded")
	}
	if b.strict && tags != nil && b.expectTags != nil {
		want := b.expectTags()
		for tag, n := range want {
			if tags[tag] != n {
				viol.add("phout holds %d samples tagged %q, the target served %d requests of that ammo entry: samples of different shots were mixed up", tags[tag], tag, n)
			}
		}
		for tag, n := range tags {
			if _, ok := want[tag]; !ok {
				viol.add("phout holds %d samples with tag %q, which no ammo entry carries", n, tag)
			}
		}
	}
	if got := pp.acquiredCount(); got != int64(c.Shots) {
		viol.add("%d ammo were acquired, the provider was limited to %d ammo and the schedule had more tokens", got, c.Shots)
	}
	if rep.Shots != int64(c.Shots-discarded) {
		viol.add("%d shots were fired, the provider was limited to %d ammo and the schedule had more tokens%s", rep.Shots, c.Shots, b.discardedNote())
	}
	if b.answFile != "" {
		// measured, not judged: the answ log is there and holds something (grpc guns open - and truncate - the file once per gun)
		if st, err := os.Stat(b.answFile); err == nil {
			res.AnswLogFiles++
			if st.Size() > 0 {
				res.AnswLogWritten++
			}
		}
	}
	return rep
}

// isTransportError: failures of the loopback connection itself (the machine is saturated by
// parallel shards), as opposed to anything pandora's components did to the request.
func isTransportError(msg string) bool {
	for _, pat := range []string{"dial tcp", "i/o timeout", "connection reset", "broken pipe", "EOF", "context deadline exceeded",
		"DeadlineExceeded", "Unavailable", "connection refused", "cannot assign requested address", "too many open files",
		"Client.Timeout", "timeout awaiting response headers", "transport is closing", "connection error",
		"response error" /* all the grpc guns log for a failed call; the target only ever answers OK */} {
		if strings.Contains(msg, pat) {
			return true
		}
	}
	return false
}

// isDroppedInvocation: the warning a scenario gun logs when a postprocessor rejected an answer of the target
// (only cases whose target gives such answers on purpose).
func isDroppedInvocation(c Case, lvl zapcore.Level, msg string) bool {
	if c.Scen == nil || c.Scen.FailEvery <= 0 || lvl != zapcore.WarnLevel || !strings.HasPrefix(msg, "Invalid ammo") {
		return false
	}
	low := strings.ToLower(msg)
	return strings.Contains(low, "postprocessor") && (strings.Contains(low, "assert failed") || strings.Contains(low, "failed to unmarshal json"))
}

// TestChild executes the case named by C11_CHILD_CASE; it is only ever run by check() below.
func TestChild(t *testing.T) {
	casePath, resPath := os.Getenv(envChildCase), os.Getenv(envChildResult)
	if casePath == "" || resPath == "" {
		t.Skip("child mode only")
	}
	data, err := os.ReadFile(casePath)
	if err != nil {
		t.Fatalf("case file: %v", err)
	}
	var req struct {
		Case   Case `json:"case"`
		Rounds int  `json:"rounds"`
	}
	if err := json.Unmarshal(data, &req); err != nil {
		t.Fatalf("case file: %v", err)
	}
	pand.Init()
	res := Result{}
	werr := vf.Guard(func() error {
		if err := req.Case.validate(); err != nil {
			res.HarnessErr = err.Error()
			return nil
		}
		for i := 0; i < max(1, req.Rounds); i++ {
			res.Rounds++
			runRound(req.Case, &res)
			if len(res.Violations) > 0 || res.HarnessErr != "" {
				break
			}
		}
		return nil
	})
	if werr != nil {
		res.Violations = append(res.Violations, "panic while running the case: "+werr.Error())
	}
	out, _ := json.Marshal(res)
	if err := os.WriteFile(resPath, out, 0o644); err != nil {
		t.Fatalf("result file: %v", err)
	}
}

// ---------------- parent side ----------------

var frameRe = regexp.MustCompile(`^\s{2}(\S+)\(`)

type raceInfo struct {
	Kind   string   // data race | concurrent map | fatal error | panic
	Head   string   // first line of the report
	Frames []string // pandora frames (function names), top first, of all stacks of the first report
	Tops   []string // innermost pandora frame of each stack
	Text   string
}

// parseCrash extracts the first race report / fatal error from the child's output.
func parseCrash(out string) *raceInfo {
	idx, kind := -1, ""
	for _, m := range []struct{ marker, kind string }{
		{"WARNING: DATA RACE", "data race"},
		{"fatal error: concurrent map", "concurrent map access"},
		{"fatal error:", "runtime fatal error"},
		{"panic: ", "unrecovered panic"},
	} {
		if i := strings.Index(out, m.marker); i >= 0 && (idx < 0 || i < idx) {
			idx, kind = i, m.kind
		}
	}
	if idx < 0 {
		return nil
	}
	text := out[idx:]
	if kind == "data race" {
		if end := strings.Index(text, "=================="); end > 0 {
			text = text[:end]
		}
	}
	if len(text) > 7000 {
		text = text[:7000]
	}
	ri := &raceInfo{Kind: kind, Text: text}
	ri.Head = strings.SplitN(text, "\n", 2)[0]
	// race reports: unindented header lines ("Read at ..", "Previous write at ..", "Goroutine N (running) created at:")
	// followed by frames indented by two spaces; fatal errors: "goroutine N [..]:" followed by unindented frames.
	gotTop, creation := false, false
	for _, ln := range strings.Split(text, "\n") {
		fn := ""
		if m := frameRe.FindStringSubmatch(ln); m != nil && kind == "data race" {
			fn = m[1]
		} else if kind != "data race" && strings.Contains(ln, "(") && !strings.HasPrefix(ln, "\t") && !strings.HasPrefix(ln, " ") && !strings.HasPrefix(ln, "goroutine ") {
			fn = ln[:strings.LastIndex(ln, "(")]
		}
		if fn == "" {
			if strings.TrimSpace(ln) == "" {
				gotTop = false // next stack
			} else if !strings.HasPrefix(ln, " ") && !strings.HasPrefix(ln, "\t") {
				gotTop = false
				creation = strings.HasPrefix(ln, "Goroutine ")
			}
			continue
		}
		if creation || !strings.Contains(fn, "github.com/yandex/pandora/") {
			continue
		}
		short := strings.TrimPrefix(fn, "github.com/yandex/pandora/")
		ri.Frames = append(ri.Frames, short)
		if !gotTop {
			gotTop = true
			ri.Tops = append(ri.Tops, short)
		}
	}
	return ri
}

// classify names the listed finding a failure belongs to ("" = none).
func classify(msg string, ri *raceInfo, res *Result) string {
	if ri != nil && len(ri.Tops) > 0 {
		// every conflicting stack must end (innermost pandora frame) in the code the finding names
		sigs := map[string][]string{
			findingRandIter:   {"lib/mp.(*NextIterator).Rand"},
			findingRandString: {"lib/str.RandStringRunes"},
			findingGRPCMeta:   {"guns/grpc/scenario.(*TextTemplater).Apply", "guns/grpc/scenario.(*Gun).shootStep"},
		}
		for _, id := range []string{findingRandIter, findingRandString, findingGRPCMeta} {
			all := true
			for _, top := range ri.Tops {
				hit := false
				for _, sig := range sigs[id] {
					if strings.HasSuffix(top, sig) {
						hit = true
					}
				}
				all = all && hit
			}
			if all {
				return id
			}
		}
		return ""
	}
	if res != nil {
		for _, ch := range res.Changed {
			if strings.Contains(ch, ".Metadata[") && strings.Contains(ch, ".Calls[") {
				return findingGRPCMeta
			}
		}
	}
	if strings.Contains(msg, "metadata of another invocation was sent") {
		return findingGRPCMeta
	}
	return ""
}

type outcome struct {
	err     error  // stable message (no addresses, counters or ids)
	detail  string // everything else
	finding string
	res     *Result
	race    *raceInfo
}

func tmpDir() string {
	if d := os.Getenv("VERIF_RUNDIR"); d != "" {
		return d
	}
	return os.TempDir()
}

// runChild executes the case once in a child process and judges the outcome.
func runChild(c Case, rounds int) outcome {
	dir, err := os.MkdirTemp(tmpDir(), "c11child-")
	if err != nil {
		return outcome{err: fmt.Errorf("harness: %v", err)}
	}
	defer os.RemoveAll(dir)
	casePath, resPath := filepath.Join(dir, "case.json"), filepath.Join(dir, "result.json")
	data, _ := json.Marshal(map[string]any{"case": c, "rounds": rounds})
	if err := os.WriteFile(casePath, data, 0o644); err != nil {
		return outcome{err: fmt.Errorf("harness: %v", err)}
	}
	ctx, cancel := context.WithTimeout(context.Background(), 300*time.Second)
	defer cancel()
	cmd := exec.CommandContext(ctx, os.Args[0], "-test.run", "^TestChild$", "-test.timeout", "280s", "-test.count", "1")
	var env []string
	for _, e := range os.Environ() {
		k := strings.SplitN(e, "=", 2)[0]
		if strings.HasPrefix(k, "VERIF_REP") || k == "VERIF_CURRENT" || k == "GORACE" {
			continue
		}
		env = append(env, e)
	}
	env = append(env, envChildCase+"="+casePath, envChildResult+"="+resPath,
		fmt.Sprintf("GORACE=halt_on_error=0 atexit_sleep_ms=0 exitcode=%d", raceExitCode))
	cmd.Env = env
	cmd.Dir = dir
	var buf bytes.Buffer
	cmd.Stdout, cmd.Stderr = &buf, &buf
	runErr := cmd.Run()
	out := buf.String()
	var res *Result
	if b, err := os.ReadFile(resPath); err == nil {
		var r Result
		if json.Unmarshal(b, &r) == nil {
			res = &r
		}
	}
	if ctx.Err() != nil {
		return outcome{err: fmt.Errorf("harness: child did not finish within 300s\n%s", tail(out, 3000)), res: res}
	}
	if ri := parseCrash(out); ri != nil {
		// the message must not depend on addresses / goroutine ids: rapid only shrinks a failure it can reproduce verbatim
		msg := fmt.Sprintf("%s in the child process running this pool; top pandora frames of the conflicting stacks: %s", ri.Kind, strings.Join(ri.topFrames(), " / "))
		detail := ri.Text
		if res != nil && len(res.Violations) > 0 {
			// the race detector does not stop the run: what the probes saw in the same run is evidence too
			detail = "probes in the same run:\n" + strings.Join(res.Violations, "\n") + "\n\n" + detail
		}
		return outcome{err: errors.New(msg), detail: detail, finding: classify(msg, ri, res), res: res, race: ri}
	}
	if runErr != nil || res == nil {
		return outcome{err: fmt.Errorf("child process ended unexpectedly (%v) without a result", runErr), detail: tail(out, 4000), res: res}
	}
	if res.HarnessErr != "" {
		return outcome{err: fmt.Errorf("harness: %s", res.HarnessErr), res: res}
	}
	if len(res.Violations) > 0 {
		full := strings.Join(res.Violations, "\n")
		return outcome{err: errors.New(stable(res.Violations[0])), detail: full + "\n--- ammo / scenario file ---\n" + res.File, finding: classify(full, nil, res), res: res}
	}
	return outcome{res: res}
}

var numRe = regexp.MustCompile(`0x[0-9a-fA-F]+|[0-9a-f]{8}-[0-9a-f]{4}-[0-9a-f]{4}-[0-9a-f]{4}-[0-9a-f]{12}|\d+`)

// stable replaces run-dependent numbers of a message by '#'.
func stable(msg string) string {
	msg = strings.SplitN(msg, "\n", 2)[0]
	if len(msg) > 600 {
		msg = msg[:600]
	}
	return numRe.ReplaceAllString(msg, "#")
}

// topFrames: the innermost pandora frame of every stack of the report (sorted, unique).
func (ri *raceInfo) topFrames() []string {
	seen := map[string]bool{}
	var out []string
	for _, f := range ri.Tops {
		if !seen[f] {
			seen[f] = true
			out = append(out, f)
		}
	}
	sort.Strings(out)
	if len(out) == 0 {
		out = []string{"(none: " + ri.Head + ")"}
	}
	return out
}

func firstN(s []string, n int) []string {
	if len(s) > n {
		return s[:n]
	}
	return s
}

func tail(s string, n int) string {
	if len(s) > n {
		return s[len(s)-n:]
	}
	return s
}

// sawFailure: once a case failed in this process the following evaluations are shrink
// candidates; races are schedule-dependent, so each candidate gets several attempts.
var sawFailure atomic.Bool

func attempts(c Case, r *vf.Run) (tries, rounds int) {
	if os.Getenv("VERIF_REPLAY") != "" {
		if c.storm() {
			return 1, 1 // a round of a storm lasts more than a second
		}
		return 1, 3 // the driver repeats the replay case itself
	}
	if sawFailure.Load() {
		return 4, 3
	}
	return 1, r.Pick(2, 2)
}

// memo remembers the verdict of cases judged while shrinking: rapid minimises the raw bits of its
// draws, so many shrink candidates decode to a case that was already judged (a child run each).
var (
	memoMu sync.Mutex
	memo   = map[string]outcome{}
)

func checkWith(c Case, o *vf.Obs, r *vf.Run) error {
	tries, rounds := attempts(c, r)
	key, _ := json.Marshal(c)
	var oc outcome
	cached := false
	if sawFailure.Load() && os.Getenv("VERIF_REPLAY") == "" {
		memoMu.Lock()
		oc, cached = memo[string(key)]
		memoMu.Unlock()
	}
	if !cached {
		for i := 0; i < tries; i++ {
			oc = runChild(c, rounds)
			if oc.err != nil {
				break
			}
		}
		if oc.err != nil || sawFailure.Load() {
			memoMu.Lock()
			memo[string(key)] = oc
			memoMu.Unlock()
		}
	}
	label(c, o, oc.res)
	if oc.err == nil {
		return nil
	}
	sawFailure.Store(true)
	if oc.race != nil {
		o.Note("pandora_frames", firstN(oc.race.Frames, 12))
	}
	if oc.detail != "" {
		o.Note("detail", oc.detail)
	}
	if oc.res != nil {
		o.Note("child_result", oc.res)
	}
	if strings.HasPrefix(oc.err.Error(), "harness:") {
		return oc.err
	}
	if oc.finding != "" {
		o.Note("finding", oc.finding)
		if os.Getenv("VERIF_REPLAY") != "" && r.IsKnown(oc.finding) {
			// a saved regression case of a finding that is listed as known: still there, not a new violation.
			// (Generated cases never get here: the generator steers around listed findings.)
			r.KnownHit(oc.finding)
			return nil
		}
		return fmt.Errorf("[%s] %v", oc.finding, oc.err)
	}
	return oc.err
}

func label(c Case, o *vf.Obs, res *Result) {
	o.Class("kind_" + c.Kind)
	o.Class("agg_" + c.Agg)
	for _, s := range c.sharedObjects() {
		o.Class("obj_" + s)
	}
	for _, s := range c.scheduleClasses() {
		o.Class("sched_" + s)
	}
	switch {
	case c.Instances <= 4:
		o.Class("instances_2_4")
	case c.Instances <= 8:
		o.Class("instances_5_8")
	default:
		o.Class("instances_9_16")
	}
	if res == nil {
		return
	}
	overlap := res.Guns.MaxActive >= 2
	o.ClassIf(overlap, "overlap_measured")
	o.ClassIf(res.Guns.MaxActive >= 4, "overlap_ge_4")
	o.ClassIf(res.TransportErrors > 0, "transport_errors_under_load")
	o.ClassIf(res.StepFailures > 0, "invocations_dropped_after_failed_postprocessor")
	o.ClassIf(res.StepFailures > 0 && overlap, "invocations_dropped_while_shots_overlap")
	o.ClassIf(res.Discarded > 0, "shots_discarded_as_overflow")
	o.ClassIf(res.DiscardedOverlap > 0, "shots_discarded_and_shots_overlap")
	o.ClassIf(res.Discarded > 0 && c.Plain != nil && c.Plain.Format == "grpcjson", "shots_discarded_with_pooled_ammo")
	o.ClassIf(res.Discarded > res.Rounds*c.certainDiscards(), "shots_discarded_beyond_the_certain_ones_stalled_machine")
	if p := c.Plain; p != nil && p.BodyKiB > 0 {
		// other instances acquire (the provider goroutine decodes further entries) while a request that is mostly still in the
		// ammo's memory is being sent
		o.ClassIf(overlap, "big_body_shots_overlap")
		o.ClassIf(overlap && !p.Preload, "big_body_shots_overlap_streamed_"+p.Format)
		o.ClassIf(overlap && !p.Preload && p.Entries > 1, "big_body_shots_overlap_streamed_differing_entries")
	}
	o.ClassIf(res.ElapsedMs >= 1000, "run_longer_than_flush_period")
	if c.httpGun() {
		// the DNS caching dialer was in use for certain: the gun section said so in every round
		cached := c.TargetBy == targetByNameLate && res.PreResolveFailed >= res.Rounds && res.Rounds > 0
		o.ClassIf(cached, "dns_cache_on_target_not_pre_resolved")
		o.ClassIf(cached && overlap, "dns_cache_on_and_shots_overlap")
		o.ClassIf(cached && c.SharedClients > 0 && overlap, "dns_cache_on_shared_client_and_shots_overlap")
		o.ClassIf(cached && c.SharedClients > 0 && res.RedialOverlap > 0, "dns_cache_on_shared_client_redialing_while_shots_overlap")
		o.ClassIf(cached && c.SharedClients == 0 && res.RedialOverlap > 0, "dns_cache_on_own_clients_redialing_while_shots_overlap")
		o.ClassIf(res.RedialOverlap > 0, "http_redialing_while_shots_overlap")
		o.Note("connections_accepted", res.Conns)
	}
	o.ClassIf(c.Agg == "phout" && c.QueueSize > 0, fmt.Sprintf("phout_sample_queue_%d", c.QueueSize))
	o.ClassIf(c.Agg == "phout" && c.QueueSize > 0 && overlap, "phout_small_queue_and_shots_overlap")
	if c.storm() {
		across := res.StormAcrossFlush > 0
		o.ClassIf(across, "discards_reported_across_periodic_flush")
		o.ClassIf(across && c.Agg == "phout", "discards_reported_across_periodic_flush_phout")
		o.ClassIf(across && c.Agg == "phout" && c.QueueSize > 0, "discards_reported_across_periodic_flush_phout_small_queue")
		o.ClassIf(across && c.Agg == "phout" && c.QueueSize > 0, fmt.Sprintf("discards_reported_across_periodic_flush_phout_queue_%d", c.QueueSize))
		o.ClassIf(across && c.Agg == "jsonlines", "discards_reported_across_periodic_flush_jsonlines")
		o.Note("storm_ms", []int64{res.StormFromMs, res.StormToMs})
	}
	if c.AnswLog != "" {
		o.ClassIf(res.AnswLogWritten > 0, "answlog_file_holds_entries")
		o.ClassIf(res.AnswLogWritten > 0 && overlap, "answlog_file_holds_entries_and_shots_overlap")
	}
	labelEngine(c, o, res)
	if len(res.Logged) > 0 {
		o.Note("warnings_logged", res.Logged)
	}
	o.Note("guns", res.Guns)
	o.Note("served", res.Served)
	o.Note("dump_lines", res.DumpLines)
	if c.Instances >= 2 && overlap {
		o.NonTrivial()
	}
}

// labelEngine names the classes of an engine of several pools (Case.Siblings).
func labelEngine(c Case, obs *vf.Obs, res *Result) {
	pools := c.pools()
	o := &classSet{o: obs, seen: map[string]bool{}} // a class counts once per case, however many siblings show it
	o.Class(fmt.Sprintf("pools_%d", len(pools)))
	if len(pools) < 2 {
		return
	}
	o.Class("multi_pool")
	kinds := map[string]int{}
	grpcGuns, grpcAnsw, httpAnsw, answDefaultFile, instances := 0, 0, 0, 0, 0
	for i, p := range pools {
		kinds[p.Kind]++
		instances += p.Instances
		if i > 0 {
			o.Class("sibling_kind_" + p.Kind)
			for _, s := range p.sharedObjects() {
				o.Class("sibling_obj_" + s)
			}
		}
		if p.grpcGun() {
			grpcGuns++
			if p.AnswLog != "" {
				grpcAnsw++
			}
		} else if p.AnswLog != "" {
			httpAnsw++
		}
		if p.AnswLog == answDefault {
			answDefaultFile++
		}
	}
	o.ClassIf(len(kinds) == 1, "multi_pool_one_gun_kind")
	o.ClassIf(len(kinds) > 1, "multi_pool_mixed_gun_kinds")
	o.ClassIf(len(kinds) == 1 && grpcGuns > 0, "multi_pool_one_gun_kind_grpc")
	// guns whose constructor runs on the pools' and the instances' goroutines (grpc, grpc/scenario: NewGun makes the answ log)
	o.ClassIf(grpcGuns >= 2, "multi_pool_grpc_guns_in_2_or_more_pools")
	o.ClassIf(grpcAnsw >= 2, "multi_pool_answlog_of_grpc_guns_in_2_or_more_pools")
	o.ClassIf(grpcAnsw >= 1 && grpcAnsw < grpcGuns, "multi_pool_grpc_guns_with_and_without_answlog")
	o.ClassIf(httpAnsw >= 2, "multi_pool_answlog_of_http_guns_in_2_or_more_pools")
	o.ClassIf(grpcAnsw >= 1 && httpAnsw >= 1, "multi_pool_answlog_of_grpc_and_http_guns")
	o.ClassIf(answDefaultFile >= 2, "multi_pool_answlog_default_file_shared_by_pools")
	o.ClassIf(instances > 16, "multi_pool_more_than_16_instances")
	if res == nil {
		return
	}
	side := res.CtorsSideBySide > 0
	o.ClassIf(side, "multi_pool_guns_made_side_by_side")
	o.ClassIf(side && grpcAnsw >= 2, "multi_pool_answlog_of_grpc_guns_made_side_by_side")
	o.ClassIf(res.AcrossPools > 0, "multi_pool_shots_overlap_across_pools")
	o.ClassIf(res.PoolsOverlapping >= 2, "multi_pool_shots_overlap_within_2_or_more_pools")
	for i, sr := range res.Siblings {
		if i < len(c.Siblings) && sr != nil {
			sc := c.Siblings[i]
			o.ClassIf(sr.Guns.MaxActive >= 2, "sibling_overlap_measured")
			o.ClassIf(sr.Discarded > 0, "sibling_shots_discarded_as_overflow")
			o.ClassIf(sr.StepFailures > 0, "sibling_invocations_dropped_after_failed_postprocessor")
			o.ClassIf(sc.TargetBy == targetByNameLate && sr.PreResolveFailed >= res.Rounds && res.Rounds > 0, "sibling_dns_cache_on_target_not_pre_resolved")
			o.ClassIf(sr.TransportErrors > 0, "sibling_transport_errors_under_load")
			o.ClassIf(sc.AnswLog != "" && sr.AnswLogWritten > 0, "sibling_answlog_file_holds_entries")
		}
	}
	obs.Note("sibling_pools", res.Siblings)
}

type classSet struct {
	o    *vf.Obs
	seen map[string]bool
}

func (s *classSet) Class(name string) {
	if !s.seen[name] {
		s.seen[name] = true
		s.o.Class(name)
	}
}

func (s *classSet) ClassIf(cond bool, name string) {
	if cond {
		s.Class(name)
	}
}

func TestIsolation(t *testing.T) {
	r := vf.Start(t, "C11")
	vf.Check(r, func(t *rapid.T) Case { return genCase(t, r) },
		func(c Case, o *vf.Obs) error { return checkWith(c, o, r) })
}

// ---------------- witnesses of listed findings ----------------

// witness runs the fixed minimal case of a finding. While the finding is listed as known a
// reproduction is not a violation and KnownHit tells the driver that the defect is still there;
// otherwise (not listed, or listed as fixed) the case is a strict regression case.
func witness(t *testing.T, id string, c Case) {
	r := vf.Start(t, "C11")
	known := r.IsKnown(id)
	o := &vf.Obs{}
	var oc outcome
	for i := 0; i < 6; i++ {
		oc = runChild(c, 3)
		if oc.err != nil {
			break
		}
	}
	label(c, o, oc.res)
	o.ClassIf(known, "listed_as_known")
	switch {
	case oc.err == nil:
		r.Record(c, o, nil)
	case known && oc.finding == id:
		r.KnownHit(id)
		r.Record(c, o, nil)
	default:
		o.Note("detail", oc.detail)
		err := oc.err
		if oc.finding != "" {
			o.Note("finding", oc.finding)
			err = fmt.Errorf("[%s] %v", oc.finding, oc.err)
		}
		r.Record(c, o, err)
		t.Errorf("regression case of %s failed: %v", id, err)
	}
}

func TestWitnessRandIterator(t *testing.T) {
	witness(t, findingRandIter, Case{Kind: kindHTTPScen, Instances: 4, Shots: 16, Agg: "phout",
		Scen: &Scen{Source: "csv", Rows: 3, Index: "rand", Meta: "none", Repeat: 1, Scenarios: 1}})
}

func TestWitnessRandString(t *testing.T) {
	witness(t, findingRandString, Case{Kind: kindHTTPScen, Instances: 4, Shots: 16, Agg: "phout",
		Scen: &Scen{FnRandString: true, PreRandString: true, Meta: "none", Repeat: 1, Scenarios: 1}})
}

func TestWitnessGRPCMetadata(t *testing.T) {
	witness(t, findingGRPCMeta, Case{Kind: kindGRPCScen, Instances: 4, Shots: 16, Agg: "phout",
		Scen: &Scen{PreUUID: true, Meta: "tmpl", Repeat: 1, Scenarios: 1}})
}
