package c11

// Turns a Case into a pool configuration, its ammo / scenario files on the shared
// mem-fs and a scripted in-process target that judges per-invocation consistency.

import (
	"bytes"
	"encoding/json"
	"fmt"
	"net/http"
	"net/url"
	"os"
	"path/filepath"
	"strconv"
	"strings"
	"sync"
	"time"

	ag "verif/harness/internal/ammogen"
	"verif/harness/internal/pand"
	"verif/harness/internal/target"

	"github.com/spf13/afero"
	server "github.com/yandex/pandora/examples/grpc/server"
	"google.golang.org/grpc/codes"
	"gopkg.in/yaml.v2"
)

type built struct {
	pool    map[string]any
	outFile string
	files   []string
	close   func()
	// up (optional) makes the target reachable: it is called once the pool config is decoded (a target named by a host
	// name that could not be resolved - reached - when the gun section was read)
	up func() error
	// finish judges what the target saw once the run is over; returns the number of requests served
	finish func() int
	// expectTags (optional): sample tag -> number of samples the run must have left
	expectTags func() map[string]int
	text       string // the ammo / scenario file, for messages
	// strict: no request failed at the transport level, so the counts must be exact (set before finish)
	strict bool
	// discarded: ammo the instances acquired but did not shoot because discard_overflow dropped the shot (set before finish)
	discarded int
	// conns: connections the http target accepted (set by finish)
	conns int64
	// answFile: the file the gun's answ log goes to ("" = answlog is off)
	answFile string
}

func (b *built) discardedNote() string {
	if b.discarded == 0 {
		return ""
	}
	return fmt.Sprintf(", %d of them were discarded as overflow", b.discarded)
}

// fired: the ammo that were shot.
func (b *built) fired(c Case) int { return c.Shots - b.discarded }

func (b *built) cleanup() {
	for _, f := range b.files {
		pand.Remove(f)
	}
	if b.answFile != "" {
		_ = os.Remove(b.answFile) // (the guns keep their descriptors; the directory goes with the child)
	}
	if b.close != nil {
		b.close()
	}
}

func writeFile(b *built, prefix, ext string, data []byte) string {
	name := pand.WriteFile(prefix, ext, data)
	b.files = append(b.files, name)
	return name
}

// build makes pool `id` of the engine: its files, its target and its config section. wd is the working directory of the
// process (answ logs are real files: lib/answlog opens them with os.Create).
func build(c Case, id, wd string, viol *violations) (*built, error) {
	b := &built{}
	b.outFile = pand.TempName("c11out", "."+c.Agg)
	b.files = append(b.files, b.outFile)
	var result map[string]any
	if c.Agg == "jsonlines" {
		result = map[string]any{"type": "jsonlines", "sink": map[string]any{"type": "file", "path": b.outFile}}
	} else {
		result = map[string]any{"type": "phout", "destination": b.outFile, "id": true}
		if c.QueueSize > 0 {
			result["sample-queue-size"] = c.QueueSize
		}
	}
	var gun, ammo map[string]any
	var err error
	switch c.Kind {
	case kindHTTP:
		gun, ammo, err = buildHTTP(c, b, viol)
	case kindHTTPScen:
		gun, ammo, err = buildHTTPScen(c, b, viol)
	case kindGRPC:
		gun, ammo, err = buildGRPC(c, b, viol)
	case kindGRPCScen:
		gun, ammo, err = buildGRPCScen(c, b, viol)
	default:
		err = fmt.Errorf("unknown kind %q", c.Kind)
	}
	if err != nil {
		b.cleanup()
		return nil, err
	}
	if c.SharedClients > 0 {
		gun["shared-client"] = map[string]any{"enabled": true, "client-number": c.SharedClients}
	}
	if c.AnswLog != "" {
		answ := map[string]any{"enabled": true}
		if c.AnswLog == answOwn {
			b.answFile = filepath.Join(wd, "answ-"+id+strings.ReplaceAll(pand.TempName("", ".log"), "/", ""))
			answ["path"] = b.answFile
		} else {
			b.answFile = filepath.Join(wd, "answ.log") // the default of the option: `answ.log` in the working directory
		}
		if c.AnswFilter != "" {
			answ["filter"] = c.AnswFilter
		}
		gun["answlog"] = answ
	}
	b.pool = map[string]any{
		"id": id, "gun": gun, "ammo": ammo, "result": result,
		"rps":     rpsConf(c),
		"startup": startupConf(c),
		// the default of the option is set by the CLI only; the harness always names it
		"discard_overflow": c.DiscardOverflow,
	}
	return b, nil
}

func sectionConfs(secs []Section) []any {
	var out []any
	for _, s := range secs {
		switch s.Type {
		case "once":
			out = append(out, map[string]any{"type": "once", "times": s.Tokens})
		case "const":
			out = append(out, map[string]any{"type": "const", "ops": constOps(s.Tokens, s.DurMs), "duration": fmt.Sprintf("%dms", s.DurMs)})
		case "unlimited":
			out = append(out, map[string]any{"type": "unlimited", "duration": fmt.Sprintf("%dms", s.DurMs)})
		}
	}
	return out
}

// rpsConf: the schedule all instances share (the pool has no rps-per-instance).
func rpsConf(c Case) any {
	secs := c.Rps
	if c.Behind != nil {
		// the sections that lie in the past come first (runRound starts the schedule that much earlier)
		if len(secs) == 0 {
			secs = []Section{{Type: "once", Tokens: c.rest() + 5}}
		}
		secs = c.Behind.sections(secs)
	}
	if len(secs) == 0 {
		return map[string]any{"type": "once", "times": c.Shots + 5}
	}
	if c.RpsNested {
		return map[string]any{"type": "composite", "nested": sectionConfs(secs)}
	}
	return sectionConfs(secs)
}

func startupConf(c Case) any {
	st := c.Startup
	var conf any
	switch {
	case st == nil:
		conf = map[string]any{"type": "once", "times": c.Instances}
	case st.Kind == "instance_step":
		conf = map[string]any{"type": "instance_step", "from": st.From, "to": c.Instances, "step": st.Step, "stepduration": fmt.Sprintf("%dms", st.StepMs)}
	default:
		conf = sectionConfs(st.Sections)
	}
	if c.StartDelayMs > 0 {
		// a pause (a const section without tokens) before the first instance
		pause := sectionConfs([]Section{{Type: "const", DurMs: c.StartDelayMs}})
		if l, ok := conf.([]any); ok {
			return append(pause, l...)
		}
		return append(pause, conf)
	}
	return conf
}

func think(c Case) {
	if c.DelayUs > 0 {
		time.Sleep(time.Duration(c.DelayUs) * time.Microsecond)
	}
}

// ---------------- http ----------------

const ammoHost = "ammo.example.net"

// entryLetter is the filler of entry i's big body / pad header: no two entries of a file share it.
func entryLetter(i int) byte { return byte('A' + i%26) }

// entryBody: the body of entry i. Big bodies (BodyKiB) differ per entry in length and in every byte after the head.
func entryBody(p *Plain, i int) []byte {
	if p.BodyKiB <= 0 {
		return []byte(fmt.Sprintf("body-of-entry-%d-%s", i, strings.Repeat("x", i%5)))
	}
	head := fmt.Sprintf("body-of-entry-%d-", i)
	return append([]byte(head), bytes.Repeat([]byte{entryLetter(i)}, p.BodyKiB*1024+i*101)...)
}

func entryPad(p *Plain, i int) string { return strings.Repeat(string(entryLetter(i)), p.PadHeader) }

// describeBytes renders a (possibly long) byte string for a message: runs of one byte are written as <n x 'c'>.
func describeBytes(b []byte) string {
	if len(b) <= 120 {
		return fmt.Sprintf("%q", b)
	}
	var sb strings.Builder
	fmt.Fprintf(&sb, "%d bytes: ", len(b))
	parts := 0
	for i := 0; i < len(b) && parts < 12; parts++ {
		j := i
		for j < len(b) && b[j] == b[i] {
			j++
		}
		if j-i >= 8 {
			fmt.Fprintf(&sb, "<%d x %q>", j-i, string(b[i]))
			i = j
			continue
		}
		// a stretch without long runs
		k := i
		for k < len(b) && k-i < 40 {
			r := k
			for r < len(b) && b[r] == b[k] {
				r++
			}
			if r-k >= 8 {
				break
			}
			k = r
		}
		k = min(k, i+40)
		fmt.Fprintf(&sb, "%q", b[i:k])
		i = k
	}
	if parts >= 12 {
		sb.WriteString("...")
	}
	return sb.String()
}

// firstDiff: the offset at which two byte strings begin to differ.
func firstDiff(a, b []byte) int {
	n := min(len(a), len(b))
	for i := 0; i < n; i++ {
		if a[i] != b[i] {
			return i
		}
	}
	return n
}

func buildHTTP(c Case, b *built, viol *violations) (gun, ammo map[string]any, err error) {
	p := c.Plain
	f := ag.File{Format: p.Format}
	if p.Array {
		f.Layout.JSON = "array"
	}
	hasBody := p.Format != "uri"
	wantHost := "" // "" = the file names no host
	if p.Format == "raw" || p.Format == "jsonline" {
		wantHost = ammoHost
	}
	if p.HostHeader {
		wantHost = ammoHost
		f.Items = append(f.Items, ag.Item{Dir: &ag.KV{K: "Host", V: ammoHost}})
	}
	stamp := p.dateHeaderName()
	for i := 0; i < p.Entries; i++ {
		e := ag.Entry{Method: "GET", URI: fmt.Sprintf("/e%d?entry=%d", i, i), Tag: fmt.Sprintf("t%d", i)}
		if hasBody {
			e.Method = "POST"
			e.Body = entryBody(p, i)
		}
		switch p.Format {
		case "uri", "uripost":
			f.Items = append(f.Items, ag.Item{Dir: &ag.KV{K: "X-Entry", V: strconv.Itoa(i)}})
		default:
			e.Host = ammoHost
			e.Headers = []ag.KV{{K: "X-Entry", V: strconv.Itoa(i)}}
			if p.PadHeader > 0 {
				e.Headers = append(e.Headers, ag.KV{K: "X-Pad", V: entryPad(p, i)})
			}
		}
		ee := e
		f.Items = append(f.Items, ag.Item{Entry: &ee})
	}
	data := f.Render()
	b.text = string(data)
	if p.big() {
		b.text = fmt.Sprintf("(%s file of %d bytes: %d entries, entry i carries a body of %d KiB + i*101 bytes of the letter 'A'+i after the head \"body-of-entry-i-\" and a header X-Pad of %d such letters)",
			p.Format, len(data), p.Entries, p.BodyKiB, p.PadHeader)
	}
	name := writeFile(b, "c11ammo", ".ammo", data)

	tg, terr := newHTTPTg(c, b)
	if terr != nil {
		return nil, nil, terr
	}
	var mu sync.Mutex
	perEntry := make([]int, p.Entries)
	tg.reset(func(seq int, r *target.Rec) target.Resp {
		think(c)
		u, perr := url.ParseRequestURI(r.RequestURI)
		if perr != nil {
			viol.add("target: unparsable request URI %q", r.RequestURI)
			return target.Resp{Status: 200, Body: []byte("ok")}
		}
		i, cerr := strconv.Atoi(u.Query().Get("entry"))
		if cerr != nil || i < 0 || i >= p.Entries || u.Path != fmt.Sprintf("/e%d", i) {
			viol.add("target: request %q matches no ammo entry", r.RequestURI)
			return target.Resp{Status: 200, Body: []byte("ok")}
		}
		if got := r.Header.Get("X-Entry"); got != strconv.Itoa(i) {
			viol.add("target: request for entry %d (%s) arrived with header X-Entry=%q: parts of different ammo were mixed", i, r.RequestURI, got)
		}
		if got := r.Header.Get("X-Common"); got != "cfg" {
			viol.add("target: request for entry %d arrived with configured header X-Common=%q, expected \"cfg\"", i, got)
		}
		if want := entryBody(p, i); hasBody && !bytes.Equal(r.Body, want) {
			viol.add("target: request for entry %d arrived with a body that differs from the ammo at offset %d: got %s, the ammo says %s: the ammo was altered after the instance acquired it", i, firstDiff(r.Body, want), describeBytes(r.Body), describeBytes(want))
		}
		if p.PadHeader > 0 {
			if got := r.Header.Get("X-Pad"); got != entryPad(p, i) {
				viol.add("target: request for entry %d arrived with a header X-Pad that differs from the ammo at offset %d: got %s, the ammo says %s", i, firstDiff([]byte(got), []byte(entryPad(p, i))), describeBytes([]byte(got)), describeBytes([]byte(entryPad(p, i))))
			}
		}
		if wantHost != "" && r.Host != wantHost {
			viol.add("target: request for entry %d arrived with Host %q, the ammo file says %q", i, r.Host, wantHost)
		}
		if stamp != "" {
			// the middleware stamps the request an instance acquired, once; what other deliveries of the same ammo
			// (other instances, earlier passes) were stamped with must not arrive here
			vals := r.Header[http.CanonicalHeaderKey(stamp)]
			if len(vals) != 1 {
				viol.add("target: request for entry %d arrived with %d values of header %s %q, the header/date middleware sets it once per acquired request: the request shares state with other deliveries of this ammo", i, len(vals), stamp, vals)
			} else if _, terr := time.Parse(http.TimeFormat, vals[0]); terr != nil {
				viol.add("target: request for entry %d arrived with %s=%q, which is not a date in HTTP format", i, stamp, vals[0])
			}
		}
		mu.Lock()
		perEntry[i]++
		mu.Unlock()
		return target.Resp{Status: 200, Body: []byte("ok")}
	})
	b.finish = func() int {
		recs := tg.records()
		b.conns = tg.conns()
		if shots := b.fired(c); len(recs) > shots || (b.strict && len(recs) != shots) {
			viol.add("target: %d requests arrived, the provider was limited to %d ammo%s", len(recs), c.Shots, b.discardedNote())
		}
		mu.Lock()
		defer mu.Unlock()
		// the file is cycled: entry i is delivered floor or ceil of Shots/Entries times (any of them may be among the discarded)
		lo, hi := max(0, c.Shots/p.Entries-b.discarded), (c.Shots+p.Entries-1)/p.Entries
		if !b.strict {
			lo = 0
		}
		for i, n := range perEntry {
			if n < lo || n > hi {
				viol.add("target: entry %d arrived %d times, expected %d..%d (%d ammo over a file of %d entries)", i, n, lo, hi, c.Shots, p.Entries)
			}
		}
		return len(recs)
	}
	b.expectTags = func() map[string]int {
		mu.Lock()
		defer mu.Unlock()
		out := map[string]int{}
		for i, n := range perEntry {
			out[fmt.Sprintf("t%d", i)] = n
		}
		return out
	}
	gun = tg.gunConf("http")
	ammo = map[string]any{"type": ag.ProviderType(p.Format), "file": name, "limit": c.Shots, "preload": p.Preload,
		"headers": []any{"[X-Common: cfg]"}}
	switch p.DateHeader {
	case "":
	case "default":
		ammo["middlewares"] = []any{map[string]any{"type": "header/date"}}
	default:
		ammo["middlewares"] = []any{map[string]any{"type": "header/date", "headerName": p.DateHeader, "location": "UTC"}}
	}
	return gun, ammo, nil
}

// ---------------- grpc ----------------

func buildGRPC(c Case, b *built, viol *violations) (gun, ammo map[string]any, err error) {
	p := c.Plain
	var sb strings.Builder
	for i := 0; i < p.Entries; i++ {
		line, _ := json.Marshal(map[string]any{"tag": fmt.Sprintf("t%d", i), "call": "target.TargetService.List",
			"metadata": map[string]string{"x-entry": strconv.Itoa(i), "x-common": "md"},
			"payload":  map[string]any{"token": fmt.Sprintf("tok-%d", i), "user_id": i}})
		sb.Write(line)
		sb.WriteString("\n")
	}
	b.text = sb.String()
	name := writeFile(b, "c11ammo", ".json", []byte(sb.String()))
	tg := target.NewGRPC()
	b.close = tg.Close
	var mu sync.Mutex
	perEntry := make([]int, p.Entries)
	tg.ResetScript(func(call *target.GCall) target.GResp {
		think(c)
		resp := target.GResp{Code: codes.OK, Items: []int64{1, 2}}
		req, ok := call.Req.(*server.ListRequest)
		if !ok || call.Method != "List" {
			viol.add("target: unexpected %s call", call.Method)
			return resp
		}
		i := int(req.GetUserId())
		if i < 0 || i >= p.Entries {
			viol.add("target: List call with user_id %d matches no ammo entry", i)
			return resp
		}
		if req.GetToken() != fmt.Sprintf("tok-%d", i) {
			viol.add("target: call of entry %d arrived with token %q: payload fields of different ammo were mixed", i, req.GetToken())
		}
		if v := call.MD.Get("x-entry"); len(v) != 1 || v[0] != strconv.Itoa(i) {
			viol.add("target: call of entry %d arrived with metadata x-entry=%q: metadata of another ammo", i, v)
		}
		if v := call.MD.Get("x-common"); len(v) != 1 || v[0] != "md" {
			viol.add("target: call of entry %d arrived with metadata x-common=%q", i, v)
		}
		mu.Lock()
		perEntry[i]++
		mu.Unlock()
		return resp
	})
	b.finish = func() int {
		calls := tg.Calls()
		if shots := b.fired(c); len(calls) > shots || (b.strict && len(calls) != shots) {
			viol.add("target: %d calls arrived, the provider was limited to %d ammo%s", len(calls), c.Shots, b.discardedNote())
		}
		mu.Lock()
		defer mu.Unlock()
		lo, hi := max(0, c.Shots/p.Entries-b.discarded), (c.Shots+p.Entries-1)/p.Entries
		if !b.strict {
			lo = 0
		}
		for i, n := range perEntry {
			if n < lo || n > hi {
				viol.add("target: entry %d arrived %d times, expected %d..%d", i, n, lo, hi)
			}
		}
		return len(calls)
	}
	b.expectTags = func() map[string]int {
		mu.Lock()
		defer mu.Unlock()
		out := map[string]int{}
		for i, n := range perEntry {
			out[fmt.Sprintf("t%d", i)] = n
		}
		return out
	}
	gun = map[string]any{"type": "grpc", "target": tg.Addr(), "timeout": "20s"}
	ammo = map[string]any{"type": "grpc/json", "file": name, "limit": c.Shots}
	return gun, ammo, nil
}

// ---------------- scenario pieces shared by http and grpc ----------------

func rowName(i int) string { return fmt.Sprintf("n%d", i) }
func rowPass(i int) string { return fmt.Sprintf("p%d", i) }

// sources returns the variable_sources section and writes the source files.
func sources(s *Scen, b *built) []any {
	var out []any
	switch s.Source {
	case "csv":
		var sb strings.Builder
		sb.WriteString("id,name,pass\n")
		for i := 1; i <= s.Rows; i++ {
			fmt.Fprintf(&sb, "%d,%s,%s\n", i, rowName(i), rowPass(i))
		}
		name := writeFile(b, "c11users", ".csv", []byte(sb.String()))
		out = append(out, map[string]any{"type": "file/csv", "name": "users", "file": name, "fields": []any{"id", "name", "pass"},
			"ignore_first_line": true, "delimiter": ","})
	case "json":
		var rows []any
		for i := 1; i <= s.Rows; i++ {
			rows = append(rows, map[string]any{"id": i, "name": rowName(i), "pass": rowPass(i)})
		}
		data, _ := json.Marshal(rows)
		name := writeFile(b, "c11users", ".json", data)
		out = append(out, map[string]any{"type": "file/json", "name": "users", "file": name})
	}
	if s.Variables {
		out = append(out, map[string]any{"type": "variables", "name": "vars", "variables": map[string]any{
			"pfx": "v-", "rs": "randString(4, abc)", "ri": "randInt(100, 200)", "uu": "uuid()"}})
	}
	return out
}

// kvPart is one `key=template` piece of what a step presents to the target.
type kvPart struct{ k, tmpl string }

// authParts: what the first step presents (rendered per invocation).
func authParts(s *Scen) []kvPart {
	pre := ".request.auth.preprocessor."
	var p []kvPart
	add := func(cond bool, k, tmpl string) {
		if cond {
			p = append(p, kvPart{k, tmpl})
		}
	}
	add(s.PreUUID, "puu", "{{"+pre+"puu}}")
	add(s.PreRandInt, "pri", "{{"+pre+"pri}}")
	add(s.PreRandString, "prs", "{{"+pre+"prs}}")
	add(s.FnRandInt, "ri", "{{randInt 10 99}}")
	add(s.FnRandString, "rs", `{{randString 6 "abc"}}`)
	add(s.FnUUID, "uu", "{{uuid}}")
	add(s.Variables, "v", "{{.source.vars.pfx}}{{.source.vars.rs}}{{.source.vars.ri}}")
	add(s.Index != "", "rid", "{{"+pre+"row.id}}")
	add(s.Index != "", "rname", "{{"+pre+"row.name}}")
	return p
}

func authMapping(s *Scen) map[string]any {
	m := map[string]any{}
	if s.Index != "" {
		m["row"] = "source.users[" + s.Index + "]"
	}
	if s.PreUUID {
		m["puu"] = "uuid()"
	}
	if s.PreRandInt {
		m["pri"] = "randInt(5, 50)"
	}
	if s.PreRandString {
		m["prs"] = "randString(5, xyz)"
	}
	return m
}

func scenarioList(s *Scen, steps []string) []any {
	var out []any
	weights := []int{1, 2, 3}
	for i := 0; i < max(1, s.Scenarios); i++ {
		out = append(out, map[string]any{"name": fmt.Sprintf("sc%d", i), "weight": weights[i%3], "min_waiting_time": 0, "requests": steps})
	}
	return out
}

// exchange is what the target remembers about the first step of one invocation.
type exchange struct {
	puu, rid string
	uses     map[string]int
	// failedAt: the step at which the target gave this invocation an answer the step's postprocessors reject ("" = none)
	failedAt string
}

type scenJudge struct {
	c    Case
	s    *Scen
	viol *violations

	mu       sync.Mutex
	seq      int
	ex       map[int]*exchange
	uuids    map[string]string
	varVal   string
	requests int
	failed   int // unsatisfying answers given
}

// unsatisfying decides (and records) whether the answer to `step` of invocation n is one that the step's
// postprocessors reject: every FailEvery-th invocation, once, at step FailAt.
func (j *scenJudge) unsatisfying(step string, n int) bool {
	if !j.s.failsAt(step) || n <= 0 || n%j.s.FailEvery != 0 {
		return false
	}
	j.mu.Lock()
	defer j.mu.Unlock()
	e := j.ex[n]
	if e == nil || e.failedAt != "" {
		return false
	}
	e.failedAt = step
	j.failed++
	return true
}

// wantFailed: invocations 1..shots that get an unsatisfying answer when every invocation runs up to FailAt.
func (j *scenJudge) wantFailed(shots int) int {
	if j.s.FailEvery <= 0 {
		return 0
	}
	return shots / j.s.FailEvery
}

func newJudge(c Case, viol *violations) *scenJudge {
	return &scenJudge{c: c, s: c.Scen, viol: viol, ex: map[int]*exchange{}, uuids: map[string]string{}}
}

func inAlphabet(v, alphabet string) bool {
	for _, ch := range v {
		if !strings.ContainsRune(alphabet, ch) {
			return false
		}
	}
	return true
}

func looksLikeUUID(v string) bool {
	if len(v) != 36 {
		return false
	}
	for i, ch := range v {
		switch i {
		case 8, 13, 18, 23:
			if ch != '-' {
				return false
			}
		default:
			if !strings.ContainsRune("0123456789abcdef", ch) {
				return false
			}
		}
	}
	return true
}

// common judges the pieces every step may present. get returns "" for an absent key.
func (j *scenJudge) common(step string, get func(string) (string, bool)) {
	s := j.s
	chk := func(k string, ok func(v string) bool, what string) {
		v, present := get(k)
		if !present {
			j.viol.add("target: step %s arrived without %q", step, k)
			return
		}
		if !ok(v) {
			j.viol.add("target: step %s arrived with %s=%q, which is not %s", step, k, v, what)
		}
	}
	intIn := func(lo, hi int) func(string) bool {
		return func(v string) bool { n, err := strconv.Atoi(v); return err == nil && n >= lo && n < hi }
	}
	if s.FnRandInt {
		chk("ri", intIn(10, 99), "a randInt 10 99 value")
	}
	if s.FnRandString {
		chk("rs", func(v string) bool { return len(v) == 6 && inAlphabet(v, "abc") }, "a randString 6 \"abc\" value")
	}
	if s.FnUUID {
		chk("uu", looksLikeUUID, "a uuid")
		if v, ok := get("uu"); ok && looksLikeUUID(v) {
			j.mu.Lock()
			if prev, dup := j.uuids[v]; dup {
				j.viol.add("target: the template function uuid rendered %s twice (%s and %s)", v, prev, step)
			}
			j.uuids[v] = step
			j.mu.Unlock()
		}
	}
	if s.Variables {
		if v, ok := get("v"); ok {
			j.mu.Lock()
			if j.varVal == "" {
				j.varVal = v
			} else if j.varVal != v {
				j.viol.add("target: values of the `variables` source are computed once, but requests carried %q and %q", j.varVal, v)
			}
			j.mu.Unlock()
			if !strings.HasPrefix(v, "v-") || len(v) < 9 {
				j.viol.add("target: step %s arrived with variables-source value %q (expected v-<4 chars><3 digits>)", step, v)
			}
		} else {
			j.viol.add("target: step %s arrived without the variables-source value", step)
		}
	}
}

// auth judges the first step and issues a fresh token number.
func (j *scenJudge) auth(get func(string) (string, bool)) int {
	s := j.s
	j.common("auth", get)
	e := &exchange{uses: map[string]int{}}
	if s.PreUUID {
		e.puu, _ = get("puu")
		if !looksLikeUUID(e.puu) {
			j.viol.add("target: auth arrived with preprocessor uuid %q", e.puu)
		}
	}
	if s.PreRandInt {
		v, _ := get("pri")
		if n, err := strconv.Atoi(v); err != nil || n < 5 || n >= 50 {
			j.viol.add("target: auth arrived with preprocessor randInt(5, 50) value %q", v)
		}
	}
	if s.PreRandString {
		v, _ := get("prs")
		if len(v) != 5 || !inAlphabet(v, "xyz") {
			j.viol.add("target: auth arrived with preprocessor randString(5, xyz) value %q", v)
		}
	}
	if s.Index != "" {
		rid, _ := get("rid")
		rname, _ := get("rname")
		e.rid = rid
		n, err := strconv.Atoi(rid)
		if err != nil || n < 1 || n > s.Rows {
			j.viol.add("target: auth arrived with row id %q, the source has rows 1..%d", rid, s.Rows)
		} else {
			if rname != rowName(n) {
				j.viol.add("target: auth arrived with id %q and name %q rendered from one [%s] row: they belong to different rows", rid, rname, s.Index)
			}
			if s.Index == "last" && n != s.Rows {
				j.viol.add("target: auth arrived with row id %d for users[last], the last row is %d", n, s.Rows)
			}
		}
		for _, extra := range []string{"rid2", "rpass"} {
			if v, ok := get(extra); ok && err == nil {
				want := rid
				if extra == "rpass" {
					want = rowPass(n)
				}
				if v != want {
					j.viol.add("target: auth arrived with %s=%q next to row id %q of the same [%s] row (expected %q): values of different rows / invocations were mixed", extra, v, rid, s.Index, want)
				}
			}
		}
	}
	if v, ok := get("puu2"); ok && v != e.puu {
		j.viol.add("target: auth arrived with the invocation's uuid rendered as %q in one place and %q in another", e.puu, v)
	}
	j.mu.Lock()
	j.seq++
	n := j.seq
	j.ex[n] = e
	j.requests++
	j.mu.Unlock()
	return n
}

func tokenOf(n int) string   { return fmt.Sprintf("T%06d", n) }
func hdrTokOf(n int) string  { return fmt.Sprintf("Hx%06d", n) }
func xTokOf(n int) string    { return fmt.Sprintf("X%06d", n) }
func itemsOf(n int) [3]int64 { return [3]int64{int64(n)*10 + 1, int64(n)*10 + 2, int64(n)*10 + 3} }

// follow judges a later step: links are (name, presented value, decoder to the token number).
type link struct {
	name, val string
	num       int
}

func numAfter(prefix, v string) int {
	if !strings.HasPrefix(v, prefix) || len(v) == len(prefix) {
		return -1
	}
	n, err := strconv.Atoi(v[len(prefix):])
	if err != nil || n < 0 {
		return -1
	}
	return n
}

func (j *scenJudge) follow(step string, links []link, get func(string) (string, bool), item string, maxUses int) int {
	j.common(step, get)
	j.mu.Lock()
	defer j.mu.Unlock()
	j.requests++
	n := -1
	for _, l := range links {
		if l.num < 0 {
			j.viol.add("target: step %s presented %s=%q, which the target never issued", step, l.name, l.val)
			continue
		}
		if n >= 0 && l.num != n {
			j.viol.add("target: step %s presented %s=%q (issued to invocation #%d) together with values issued to invocation #%d: one request mixes two invocations", step, l.name, l.val, l.num, n)
			continue
		}
		n = l.num
	}
	if n < 0 {
		return n
	}
	e := j.ex[n]
	if e == nil {
		j.viol.add("target: step %s presented values numbered %d, which the target never issued", step, n)
		return -1
	}
	if e.failedAt != "" {
		j.viol.add("target: step %s presented token #%d, but the %s step of that invocation got an answer its postprocessors reject: upon a failed assertion further scenario execution is dropped", step, n, e.failedAt)
	}
	if v, ok := get("puu"); ok && v != e.puu {
		j.viol.add("target: step %s presented token #%d with invocation uuid %q, but that token was issued to the invocation with uuid %q: a value issued to one invocation was presented by another", step, n, v, e.puu)
	}
	if v, ok := get("rid"); ok && v != e.rid {
		j.viol.add("target: step %s presented token #%d with row id %q, but the invocation that got this token used row %q", step, n, v, e.rid)
	}
	if item != "" {
		it := itemsOf(n)
		k, err := strconv.ParseInt(item, 10, 64)
		if err != nil || (k != it[0] && k != it[1] && k != it[2]) {
			j.viol.add("target: step %s presented token #%d with item %q, the items issued with this token are %v", step, n, item, it)
		} else if j.s.RespIndex == "last" && k != it[2] {
			j.viol.add("target: step %s presented item %d for [last], the last item issued is %d", step, k, it[2])
		}
	}
	if maxUses > 0 {
		e.uses[step]++
		if e.uses[step] > maxUses {
			j.viol.add("target: token #%d was presented by %d %s steps, one invocation has only %d: a value issued to one invocation was presented by another", n, e.uses[step], step, maxUses)
		}
	}
	return n
}

// ---------------- http/scenario ----------------

func joinQuery(path string, parts []kvPart) string {
	var sb strings.Builder
	sb.WriteString(path)
	for i, p := range parts {
		if i == 0 {
			sb.WriteString("?")
		} else {
			sb.WriteString("&")
		}
		sb.WriteString(p.k + "=" + p.tmpl)
	}
	return sb.String()
}

func httpScenarioDoc(c Case, b *built) map[string]any {
	s := c.Scen
	pre := ".request.auth.preprocessor."
	post := ".request.auth.postprocessor."
	doc := map[string]any{}
	if src := sources(s, b); len(src) > 0 {
		doc["variable_sources"] = src
	}
	// ---- auth ----
	ap := append([]kvPart{{"step", "auth"}}, authParts(s)...)
	auth := map[string]any{"name": "auth", "method": "POST", "uri": joinQuery("/auth", ap), "tag": "a"}
	body := `{"step":"auth"`
	if s.Index != "" {
		body += `,"rid2":"{{` + pre + `row.id}}","rpass":"{{` + pre + `row.pass}}"`
	}
	body += "}"
	auth["body"] = body
	switch s.Meta {
	case "const":
		auth["headers"] = map[string]any{"X-Step": "auth", "X-Const": "k"}
	case "tmpl":
		h := map[string]any{"X-Step": "auth", "X-Const": "k"}
		if s.Index != "" {
			h["X-Rid2"] = "{{" + pre + "row.id}}"
			h["X-Rpass"] = "{{" + pre + "row.pass}}"
		}
		if s.PreUUID {
			h["X-Puu2"] = "{{" + pre + "puu}}"
		}
		if s.FnRandString {
			h["X-Rs2"] = `{{randString 4 "xyz"}}`
		}
		if s.Variables {
			h["X-Pfx"] = "{{.source.vars.pfx}}"
		}
		auth["headers"] = h
	}
	if m := authMapping(s); len(m) > 0 {
		auth["preprocessor"] = map[string]any{"mapping": m}
	}
	var posts []any
	if s.PostJsonpath {
		posts = append(posts, map[string]any{"type": "var/jsonpath", "mapping": map[string]any{"token": "$.token", "uid": "$.uid", "items": "$.items"}})
	}
	if s.PostHeader {
		posts = append(posts, map[string]any{"type": "var/header", "mapping": map[string]any{
			"htok": "X-Tok|lower|substr(2)", "hup": "X-Tok|upper|replace(HX,)", "hmid": "X-Tok|substr(2,8)"}})
	}
	if s.PostXpath {
		posts = append(posts, map[string]any{"type": "var/xpath", "mapping": map[string]any{"xtok": "//div[@id='tok']"}})
	}
	if s.PostAssert || s.failsAt("auth") {
		posts = append(posts, map[string]any{"type": "assert/response", "body": []any{"token", "granted"}, "status_code": 200,
			"headers": map[string]any{"Content-Type": "json"}})
	}
	if len(posts) > 0 {
		auth["postprocessors"] = posts
	}
	// ---- use ----
	up := []kvPart{{"step", "use"}}
	if s.PostJsonpath {
		up = append(up, kvPart{"tok", "{{" + post + "token}}"}, kvPart{"uid", "{{" + post + "uid}}"})
	}
	if s.PostHeader {
		up = append(up, kvPart{"htok", "{{" + post + "htok}}"}, kvPart{"hup", "{{" + post + "hup}}"}, kvPart{"hmid", "{{" + post + "hmid}}"})
	}
	if s.PostXpath {
		up = append(up, kvPart{"xtok", "{{" + post + "xtok}}"})
	}
	if s.RespIndex != "" {
		up = append(up, kvPart{"it", "{{.request.use.preprocessor.item}}"})
	}
	for _, p := range authParts(s) {
		if p.k == "rname" || p.k == "pri" || p.k == "prs" {
			continue
		}
		up = append(up, p)
	}
	use := map[string]any{"name": "use", "method": "POST", "uri": joinQuery("/use", up), "tag": "u", "body": `{"step":"use"}`}
	switch s.Meta {
	case "const":
		use["headers"] = map[string]any{"X-Step": "use", "X-Const": "k"}
	case "tmpl":
		h := map[string]any{"X-Step": "use", "X-Const": "k"}
		if s.PostJsonpath {
			h["X-Tok2"] = "Bearer {{" + post + "token}}"
		}
		if s.PostHeader {
			h["X-Htok2"] = "{{" + post + "htok}}"
		}
		if s.PreUUID {
			h["X-Puu2"] = "{{" + pre + "puu}}"
		}
		if s.Index != "" {
			h["X-Rid2"] = "{{" + pre + "row.id}}"
		}
		use["headers"] = h
	}
	if s.RespIndex != "" {
		use["preprocessor"] = map[string]any{"mapping": map[string]any{"item": "request.auth.postprocessor.items[" + s.RespIndex + "]"}}
	}
	if s.failsAt("use") {
		use["postprocessors"] = []any{map[string]any{"type": "assert/response", "body": []any{"accepted"}, "status_code": 200,
			"headers": map[string]any{"Content-Type": "json"}}}
	}
	if s.Templater != "" {
		auth["templater"] = map[string]any{"type": s.Templater}
		use["templater"] = map[string]any{"type": s.Templater}
	}
	doc["requests"] = []any{auth, use}
	steps := []string{"auth"}
	if s.SleepMs > 0 {
		steps = append(steps, fmt.Sprintf("sleep(%d)", s.SleepMs))
	}
	steps = append(steps, fmt.Sprintf("use(%d)", max(1, s.Repeat)))
	doc["scenarios"] = scenarioList(s, steps)
	return doc
}

func buildHTTPScen(c Case, b *built, viol *violations) (gun, ammo map[string]any, err error) {
	s := c.Scen
	data, merr := yaml.Marshal(httpScenarioDoc(c, b))
	if merr != nil {
		return nil, nil, merr
	}
	b.text = string(data)
	name := writeFile(b, "c11scen", ".yaml", data)
	tg, terr := newHTTPTg(c, b)
	if terr != nil {
		return nil, nil, terr
	}
	j := newJudge(c, viol)
	tg.reset(func(seq int, r *target.Rec) target.Resp {
		think(c)
		u, perr := url.ParseRequestURI(r.RequestURI)
		if perr != nil {
			viol.add("target: unparsable request URI %q", r.RequestURI)
			return target.Resp{Status: 200, Body: []byte("{}")}
		}
		q := u.Query()
		var bodyKV map[string]string
		_ = json.Unmarshal(r.Body, &bodyKV)
		get := func(k string) (string, bool) {
			if vs, ok := q[k]; ok && len(vs) > 0 {
				return vs[0], true
			}
			if v, ok := bodyKV[k]; ok {
				return v, true
			}
			return "", false
		}
		step := q.Get("step")
		if hs := r.Header.Get("X-Step"); s.Meta != "none" && hs != step {
			viol.add("target: request %s arrived with header X-Step=%q", r.RequestURI, hs)
		}
		if s.Meta != "none" && r.Header.Get("X-Const") != "k" {
			viol.add("target: request %s arrived with constant header X-Const=%q, the step defines \"k\"", r.RequestURI, r.Header.Get("X-Const"))
		}
		switch {
		case u.Path == "/auth" && step == "auth":
			if s.Meta == "tmpl" && s.FnRandString {
				if v := r.Header.Get("X-Rs2"); len(v) != 4 || !inAlphabet(v, "xyz") {
					viol.add("target: auth arrived with header X-Rs2=%q, not a randString 4 \"xyz\" value", v)
				}
			}
			if s.Meta == "tmpl" && s.Variables && r.Header.Get("X-Pfx") != "v-" {
				viol.add("target: auth arrived with header X-Pfx=%q, the variables source says \"v-\"", r.Header.Get("X-Pfx"))
			}
			if s.Meta == "tmpl" {
				if s.PreUUID {
					hdrTwin(r, viol, "auth", "puu", q.Get("puu"), "X-Puu2")
				}
				if s.Index != "" {
					hdrTwin(r, viol, "auth", "rid", q.Get("rid"), "X-Rid2")
					if n, aerr := strconv.Atoi(q.Get("rid")); aerr == nil {
						hdrTwin(r, viol, "auth", "the pass of row "+q.Get("rid"), rowPass(n), "X-Rpass")
					}
				}
			}
			n := j.auth(get)
			it := itemsOf(n)
			body := fmt.Sprintf(`{"token":"%s","granted":true,"uid":%d,"items":[%d,%d,%d],"html":"<div id='tok'>%s</div>"}`, tokenOf(n), n, it[0], it[1], it[2], xTokOf(n))
			resp := target.Resp{Status: 200, Header: map[string]string{"Content-Type": "application/json", "X-Tok": hdrTokOf(n)}, Body: []byte(body)}
			if j.unsatisfying("auth", n) {
				spoil(&resp, s.FailKind, "granted", "refused")
			}
			return resp
		case u.Path == "/use" && step == "use":
			var links []link
			addLink := func(name, v string, num int) { links = append(links, link{name, v, num}) }
			if s.PostJsonpath {
				v := q.Get("tok")
				addLink("token (var/jsonpath)", v, numAfter("T", v))
				uid := q.Get("uid")
				un, uerr := strconv.Atoi(uid)
				if uerr != nil {
					un = -1
				}
				addLink("uid (var/jsonpath)", uid, un)
				if s.Meta == "tmpl" {
					hv := r.Header.Get("X-Tok2")
					addLink("header X-Tok2 (template)", hv, numAfter("Bearer T", hv))
				}
			}
			if s.PostHeader {
				v := q.Get("htok")
				addLink("htok (var/header lower|substr(2))", v, numAfter("", v))
				v2 := q.Get("hup")
				addLink("hup (var/header upper|replace)", v2, numAfter("", v2))
				v3 := q.Get("hmid")
				addLink("hmid (var/header substr(2,8))", v3, numAfter("", v3))
				for _, vv := range []string{v, v2, v3} {
					if len(vv) != 6 {
						viol.add("target: use presented a var/header value %q, expected the 6 digits of %q", vv, "Hx######")
					}
				}
				if s.Meta == "tmpl" {
					hv := r.Header.Get("X-Htok2")
					addLink("header X-Htok2 (template)", hv, numAfter("", hv))
				}
			}
			if s.PostXpath {
				v := q.Get("xtok")
				addLink("xtok (var/xpath)", v, numAfter("X", v))
			}
			item := ""
			if s.RespIndex != "" {
				item = q.Get("it")
				if item == "" {
					viol.add("target: use arrived without the item taken from the response array")
				}
			}
			if s.Meta == "tmpl" {
				if s.PreUUID {
					hdrTwin(r, viol, "use", "puu", q.Get("puu"), "X-Puu2")
				}
				if s.Index != "" {
					hdrTwin(r, viol, "use", "rid", q.Get("rid"), "X-Rid2")
				}
			}
			n := j.follow("use", links, get, item, max(1, s.Repeat))
			resp := target.Resp{Status: 200, Header: map[string]string{"Content-Type": "application/json"}, Body: []byte(`{"ok":true,"accepted":true}`)}
			if j.unsatisfying("use", n) {
				spoil(&resp, s.FailKind, "accepted", "declined")
			}
			return resp
		default:
			viol.add("target: unexpected request %s %s", r.Method, r.RequestURI)
			return target.Resp{Status: 200, Body: []byte("{}")}
		}
	})
	b.finish = func() int {
		recs := tg.records()
		b.conns = tg.conns()
		j.mu.Lock()
		defer j.mu.Unlock()
		shots := b.fired(c)
		if j.seq > shots || (b.strict && j.seq != shots) {
			viol.add("target: %d scenario invocations began (auth requests), the provider was limited to %d%s", j.seq, c.Shots, b.discardedNote())
		}
		rep := max(1, s.Repeat)
		most := shots * (1 + rep)
		want, dropped := most, ""
		if s.FailEvery > 0 {
			// an invocation whose step failed is dropped: no `use` after a failed auth, no further `use` after a failed one
			f := j.wantFailed(shots)
			if s.FailAt == "auth" {
				want -= f * rep
			} else {
				want -= f * (rep - 1)
			}
			dropped = fmt.Sprintf(", %d of them dropped after an unsatisfying answer to %s", f, s.FailAt)
			if b.strict && j.failed != f {
				viol.add("target: %d invocations got an unsatisfying answer at %s, expected %d of %d (every %d-th)", j.failed, s.FailAt, f, shots, s.FailEvery)
			}
		}
		if len(recs) > most || (b.strict && len(recs) != want) {
			viol.add("target: %d requests arrived, %d invocations of 1+%d steps%s make %d", len(recs), shots, rep, dropped, want)
		}
		return len(recs)
	}
	gun = tg.gunConf("http/scenario")
	ammo = map[string]any{"type": "http/scenario", "file": name, "limit": c.Shots}
	return gun, ammo, nil
}

// spoil turns a well-formed answer into one that a postprocessor of the step rejects.
func spoil(r *target.Resp, kind, word, instead string) {
	switch kind {
	case "status":
		r.Status = 403
	case "header":
		r.Header["Content-Type"] = "text/plain"
	case "notjson":
		r.Body = append([]byte("<<< "), r.Body...)
	default: // body: the word the assertion looks for is missing
		r.Body = []byte(strings.Replace(string(r.Body), word, instead, 1))
	}
}

// ---------------- grpc/scenario ----------------

func joinKV(parts []kvPart) string {
	var out []string
	for _, p := range parts {
		out = append(out, p.k+"="+p.tmpl)
	}
	return strings.Join(out, ";")
}

func parseKV(v string) map[string]string {
	m := map[string]string{}
	for _, p := range strings.Split(v, ";") {
		if k, val, ok := strings.Cut(p, "="); ok {
			m[k] = val
		}
	}
	return m
}

func grpcScenarioDoc(c Case, b *built) map[string]any {
	s := c.Scen
	pre := ".request.auth.preprocessor."
	post := ".request.auth.postprocessor."
	doc := map[string]any{}
	if src := sources(s, b); len(src) > 0 {
		doc["variable_sources"] = src
	}
	jstr := func(v string) string { return `"` + v + `"` }
	// ---- auth ----
	ap := append([]kvPart{{"step", "auth"}}, authParts(s)...)
	passParts := []kvPart{{"step", "auth"}}
	if s.Index != "" {
		passParts = append(passParts, kvPart{"rid2", "{{" + pre + "row.id}}"}, kvPart{"rpass", "{{" + pre + "row.pass}}"})
	}
	if s.PreUUID {
		passParts = append(passParts, kvPart{"puu2", "{{" + pre + "puu}}"})
	}
	auth := map[string]any{"name": "auth", "tag": "a", "call": "target.TargetService.Auth",
		"payload": `{"login": ` + jstr(joinKV(ap)) + `, "pass": ` + jstr(joinKV(passParts)) + `}`}
	if m := authMapping(s); len(m) > 0 {
		auth["preprocessors"] = []any{map[string]any{"type": "prepare", "mapping": m}}
	}
	if s.PostAssert || s.failsAt("auth") {
		auth["postprocessors"] = []any{map[string]any{"type": "assert/response", "payload": []any{"token"}, "status_code": 200}}
	}
	// ---- list ----
	tokParts := []kvPart{{"tok", "{{" + post + "token}}"}}
	for _, p := range authParts(s) {
		if p.k == "rname" || p.k == "pri" || p.k == "prs" {
			continue
		}
		tokParts = append(tokParts, p)
	}
	list := map[string]any{"name": "list", "tag": "l", "call": "target.TargetService.List",
		"payload": `{"token": ` + jstr(joinKV(append([]kvPart{{"step", "list"}}, tokParts...))) + `, "user_id": {{` + post + `userId}}}`}
	if s.failsAt("list") {
		list["postprocessors"] = []any{map[string]any{"type": "assert/response", "payload": []any{"item_id"}, "status_code": 200}}
	}
	// ---- order ----
	itemExpr := "1"
	order := map[string]any{"name": "order", "tag": "o", "call": "target.TargetService.Order"}
	if s.RespIndex != "" {
		order["preprocessors"] = []any{map[string]any{"type": "prepare", "mapping": map[string]any{
			"item": "request.list.postprocessor.result[" + s.RespIndex + "].itemId"}}}
		itemExpr = "{{.request.order.preprocessor.item}}"
	}
	if s.failsAt("order") {
		order["postprocessors"] = []any{map[string]any{"type": "assert/response", "payload": []any{"order_id"}, "status_code": 200}}
	}
	order["payload"] = `{"token": ` + jstr(joinKV(append([]kvPart{{"step", "order"}}, tokParts...))) + `, "user_id": {{` + post + `userId}}, "item_id": ` + itemExpr + `}`
	switch s.Meta {
	case "const":
		auth["metadata"] = map[string]any{"x-step": "auth", "x-const": "k"}
		list["metadata"] = map[string]any{"x-step": "list", "x-const": "k"}
		order["metadata"] = map[string]any{"x-step": "order", "x-const": "k"}
	case "tmpl":
		am := map[string]any{"x-step": "auth", "x-const": "k"}
		lm := map[string]any{"x-step": "list", "x-const": "k", "x-tok2": "{{" + post + "token}}", "x-uid2": "{{" + post + "userId}}"}
		om := map[string]any{"x-step": "order", "x-const": "k", "x-tok2": "{{" + post + "token}}"}
		if s.Index != "" {
			am["x-rid2"] = "{{" + pre + "row.id}}"
			am["x-rpass"] = "{{" + pre + "row.pass}}"
			lm["x-rid2"] = "{{" + pre + "row.id}}"
		}
		if s.PreUUID {
			am["x-puu2"] = "{{" + pre + "puu}}"
			lm["x-puu2"] = "{{" + pre + "puu}}"
			om["x-puu2"] = "{{" + pre + "puu}}"
		}
		if s.FnRandString {
			am["x-rs2"] = `{{randString 4 "xyz"}}`
		}
		if s.Variables {
			am["x-pfx"] = "{{.source.vars.pfx}}"
		}
		if s.RespIndex != "" {
			om["x-item2"] = "{{.request.order.preprocessor.item}}"
		}
		auth["metadata"], list["metadata"], order["metadata"] = am, lm, om
	}
	doc["calls"] = []any{auth, list, order}
	steps := []string{"auth"}
	if s.SleepMs > 0 {
		steps = append(steps, fmt.Sprintf("sleep(%d)", s.SleepMs))
	}
	steps = append(steps, "list", fmt.Sprintf("order(%d)", max(1, s.Repeat)))
	doc["scenarios"] = scenarioList(s, steps)
	return doc
}

func buildGRPCScen(c Case, b *built, viol *violations) (gun, ammo map[string]any, err error) {
	s := c.Scen
	data, merr := yaml.Marshal(grpcScenarioDoc(c, b))
	if merr != nil {
		return nil, nil, merr
	}
	b.text = string(data)
	name := writeFile(b, "c11scen", ".yaml", data)
	tg := target.NewGRPC()
	b.close = tg.Close
	j := newJudge(c, viol)
	tg.ResetScript(func(call *target.GCall) target.GResp {
		think(c)
		resp := target.GResp{Code: codes.OK}
		md := func(k string) (string, bool) {
			v := call.MD.Get(k)
			if len(v) == 0 {
				return "", false
			}
			return v[0], true
		}
		if s.Meta != "none" {
			if v, _ := md("x-step"); v != strings.ToLower(call.Method) {
				viol.add("target: %s call arrived with metadata x-step=%q", call.Method, v)
			}
			if v, _ := md("x-const"); v != "k" {
				viol.add("target: %s call arrived with constant metadata x-const=%q, the step defines \"k\"", call.Method, v)
			}
		} else if len(call.MD.Get("x-step")) > 0 {
			viol.add("target: %s call arrived with metadata although the steps define none", call.Method)
		}
		// a value rendered into the payload and into the metadata of ONE call must be the same
		twins := func(kv map[string]string, pairs ...string) {
			if s.Meta != "tmpl" {
				return
			}
			for i := 0; i+1 < len(pairs); i += 2 {
				pv, pok := kv[pairs[i]]
				mv, mok := md(pairs[i+1])
				if pok && mok && pv != mv {
					viol.add("target: %s call arrived with %s=%q in its payload and %s=%q in its metadata, both rendered from the same variable of one invocation: metadata of another invocation was sent", call.Method, pairs[i], pv, pairs[i+1], mv)
				}
				if pok && !mok {
					viol.add("target: %s call arrived without metadata %s", call.Method, pairs[i+1])
				}
			}
		}
		switch req := call.Req.(type) {
		case *server.AuthRequest:
			kv := parseKV(req.GetLogin())
			for k, v := range parseKV(req.GetPass()) {
				if k != "step" {
					kv[k] = v
				}
			}
			if s.Meta == "tmpl" {
				if s.Index != "" {
					twins(kv, "rid", "x-rid2", "rpass", "x-rpass")
				}
				if s.PreUUID {
					twins(kv, "puu", "x-puu2")
				}
				if s.FnRandString {
					if v, _ := md("x-rs2"); len(v) != 4 || !inAlphabet(v, "xyz") {
						viol.add("target: auth arrived with metadata x-rs2=%q, not a randString 4 \"xyz\" value", v)
					}
				}
				if s.Variables {
					if v, _ := md("x-pfx"); v != "v-" {
						viol.add("target: auth arrived with metadata x-pfx=%q, the variables source says \"v-\"", v)
					}
				}
			}
			n := j.auth(func(k string) (string, bool) { v, ok := kv[k]; return v, ok })
			resp.Token, resp.UserID = tokenOf(n), int64(n)
			if j.unsatisfying("auth", n) {
				resp.Token = "" // the answer has no `token` field: assert/response payload ["token"] fails
			}
		case *server.ListRequest:
			kv := parseKV(req.GetToken())
			links := []link{{"token (response of auth)", kv["tok"], numAfter("T", kv["tok"])}, {"user_id (response of auth)", fmt.Sprint(req.GetUserId()), int(req.GetUserId())}}
			if s.Meta == "tmpl" {
				v, _ := md("x-tok2")
				links = append(links, link{"metadata x-tok2 (template)", v, numAfter("T", v)})
				u, _ := md("x-uid2")
				un, uerr := strconv.Atoi(u)
				if uerr != nil {
					un = -1
				}
				links = append(links, link{"metadata x-uid2 (template)", u, un})
				twins(kv, "puu", "x-puu2", "rid", "x-rid2")
			}
			n := j.follow("list", links, mkGetNoMD(kv), "", 1)
			if n >= 0 {
				it := itemsOf(n)
				resp.Items = it[:]
			} else {
				resp.Items = []int64{1, 2, 3}
			}
			if j.unsatisfying("list", n) {
				resp.Items = nil // an empty list has no `item_id`
			}
		case *server.OrderRequest:
			kv := parseKV(req.GetToken())
			links := []link{{"token (response of auth)", kv["tok"], numAfter("T", kv["tok"])}, {"user_id (response of auth)", fmt.Sprint(req.GetUserId()), int(req.GetUserId())}}
			item := ""
			if s.RespIndex != "" {
				item = fmt.Sprint(req.GetItemId())
			}
			if s.Meta == "tmpl" {
				v, _ := md("x-tok2")
				links = append(links, link{"metadata x-tok2 (template)", v, numAfter("T", v)})
				twins(kv, "puu", "x-puu2")
				if s.RespIndex != "" {
					if mv, ok := md("x-item2"); !ok || mv != item {
						viol.add("target: order arrived with item_id %s in its payload and x-item2=%q in its metadata: metadata of another invocation was sent", item, mv)
					}
				}
			}
			n := j.follow("order", links, mkGetNoMD(kv), item, max(1, s.Repeat))
			resp.OrderID = 1
			if j.unsatisfying("order", n) {
				resp.OrderID = 0 // the answer has no `order_id` field
			}
		default:
			viol.add("target: unexpected %s call", call.Method)
		}
		return resp
	})
	b.finish = func() int {
		calls := tg.Calls()
		j.mu.Lock()
		defer j.mu.Unlock()
		shots := b.fired(c)
		if j.seq > shots || (b.strict && j.seq != shots) {
			viol.add("target: %d scenario invocations began (Auth calls), the provider was limited to %d%s", j.seq, c.Shots, b.discardedNote())
		}
		rep := max(1, s.Repeat)
		most := shots * (2 + rep)
		want, dropped := most, ""
		if s.FailEvery > 0 {
			f := j.wantFailed(shots)
			switch s.FailAt {
			case "auth":
				want -= f * (1 + rep)
			case "list":
				want -= f * rep
			default:
				want -= f * (rep - 1)
			}
			dropped = fmt.Sprintf(", %d of them dropped after an unsatisfying answer to %s", f, s.FailAt)
			if b.strict && j.failed != f {
				viol.add("target: %d invocations got an unsatisfying answer at %s, expected %d of %d (every %d-th)", j.failed, s.FailAt, f, shots, s.FailEvery)
			}
		}
		if len(calls) > most || (b.strict && len(calls) != want) {
			viol.add("target: %d calls arrived, %d invocations of 2+%d steps%s make %d", len(calls), shots, rep, dropped, want)
		}
		return len(calls)
	}
	gun = map[string]any{"type": "grpc/scenario", "target": tg.Addr(), "timeout": "20s"}
	ammo = map[string]any{"type": "grpc/scenario", "file": name, "limit": c.Shots}
	return gun, ammo, nil
}

// hdrTwin: a header rendered from the same variable as a URI parameter of one request must carry the same value.
func hdrTwin(r *target.Rec, viol *violations, step, what, want, header string) {
	got, ok := r.Header[header]
	if !ok || len(got) == 0 {
		viol.add("target: %s arrived without header %s", step, header)
		return
	}
	if got[0] != want {
		viol.add("target: %s arrived with %s=%q in its URI and %q in header %s, both rendered from the same variable of one invocation: one request mixes two invocations", step, what, want, got[0], header)
	}
}

func mkGetNoMD(kv map[string]string) func(string) (string, bool) {
	return func(k string) (string, bool) { v, ok := kv[k]; return v, ok }
}

// readOutput checks the aggregator's file: every line must be well-formed. For phout it also
// returns the number of samples per tag (the `#id` suffix removed) and checks that ammo ids are unique
// where the gun sets them (http gun: one sample per ammo).
func readOutput(c Case, name string, viol *violations) (int, map[string]int, int) {
	data, err := afero.ReadFile(pand.FS(), name)
	if err != nil {
		viol.add("aggregator %s wrote no output: %v", c.Agg, err)
		return 0, nil, 0
	}
	n, discarded := 0, 0
	tags := map[string]int{}
	ids := map[string]int{}
	for _, ln := range strings.Split(strings.TrimSuffix(string(data), "\n"), "\n") {
		if ln == "" {
			continue
		}
		n++
		if c.Agg == "phout" {
			f := strings.Split(ln, "\t")
			if len(f) != 12 {
				viol.add("phout line with %d columns (torn or interleaved write?): %q", len(f), ln)
				continue
			}
			tag, id, _ := strings.Cut(f[1], "#")
			if tag == "discarded" && c.DiscardOverflow {
				// the sample of a shot that discard_overflow dropped (net code 777): it belongs to no ammo entry
				discarded++
				continue
			}
			tags[tag]++
			ids[id]++
		} else {
			var v map[string]any
			if json.Unmarshal([]byte(ln), &v) != nil {
				viol.add("jsonlines line is not a JSON object (torn or interleaved write?): %q", ln)
			}
		}
	}
	if c.Agg == "phout" && c.Kind == kindHTTP {
		for id, k := range ids {
			if k != 1 {
				viol.add("phout: %d samples carry ammo id %q, every ammo is shot once: a sample was altered after it was reported or reused while in flight", k, id)
			}
		}
		if len(ids) != n-discarded {
			viol.add("phout: %d samples carry %d distinct ammo ids", n-discarded, len(ids))
		}
	}
	if c.Agg != "phout" {
		tags = nil
	}
	return n, tags, discarded
}
