package c11

// Case model and generator: one pool of any supported kind with 2..16 instances.

import (
	"fmt"
	"sort"

	"verif/harness/internal/vf"

	"pgregory.net/rapid"
)

// Finding ids (see known_findings.json). The generator steers around a feature
// only while its finding is listed as known.
const (
	findingRandIter   = "mp-nextiterator-rand-race"
	findingRandString = "str-randsource-race"
	findingGRPCMeta   = "grpc-scenario-metadata-rendered-in-place"
)

const (
	kindHTTP     = "http"
	kindHTTPScen = "http_scenario"
	kindGRPC     = "grpc"
	kindGRPCScen = "grpc_scenario"
)

type Case struct {
	Kind          string `json:"kind"`
	Instances     int    `json:"instances"`
	Shots         int    `json:"shots"` // ammo handed out in total
	Agg           string `json:"aggregator"`
	DelayUs       int    `json:"target_delay_us"` // think time of the target per request: makes shots of different instances overlap
	SharedClients int    `json:"shared_clients"`  // 0 = every instance has its own client
	Plain         *Plain `json:"plain,omitempty"`
	Scen          *Scen  `json:"scenario,omitempty"`
}

// Plain describes the ammo of an http or grpc pool.
type Plain struct {
	Format  string `json:"format"` // uri | uripost | raw | jsonline | grpcjson
	Entries int    `json:"entries"`
	Preload bool   `json:"preload,omitempty"`
	// Array (jsonline only): the file is one JSON array; its decoded ammo are kept by the decoder and served again every pass.
	Array bool `json:"json_array,omitempty"`
	// DateHeader: "" = no middleware; "default" = the built-in `header/date` middleware as it is; otherwise its headerName.
	// A middleware writes into the request an instance acquired, i.e. into whatever that request shares with the decoded ammo.
	DateHeader string `json:"date_middleware,omitempty"`
	// HostHeader (uri / uripost): the file carries a `[Host: ..]` directive (raw and http/json entries always name a host).
	HostHeader bool `json:"host_header,omitempty"`
}

// redelivered: the same decoded ammo object is handed out more than once (to different instances).
func (p *Plain) redelivered(shots int) bool {
	return p != nil && p.Format != "grpcjson" && (p.Preload || (p.Format == "jsonline" && p.Array)) && shots > p.Entries
}

// dateHeaderName is the header the configured middleware stamps ("" = no middleware).
func (p *Plain) dateHeaderName() string {
	switch p.DateHeader {
	case "":
		return ""
	case "default":
		return "Date"
	}
	return p.DateHeader
}

// Scen describes a generated scenario (http/scenario: auth -> use(n); grpc/scenario: auth -> list -> order(n)).
// Every field switches on one object that all instances share.
type Scen struct {
	Source        string `json:"rows_source,omitempty"`    // csv | json: the `users` source
	Rows          int    `json:"rows,omitempty"`           //
	Index         string `json:"row_index,omitempty"`      // next | rand | last: preprocessor `row: source.users[..]`
	RespIndex     string `json:"response_index,omitempty"` // next | rand | last: preprocessor indexing an array of an earlier response
	FnRandInt     bool   `json:"tmpl_randInt,omitempty"`   // {{randInt a b}} in templates
	FnRandString  bool   `json:"tmpl_randString,omitempty"`
	FnUUID        bool   `json:"tmpl_uuid,omitempty"`
	PreRandInt    bool   `json:"pre_randInt,omitempty"` // randInt(a, b) in a preprocessor mapping
	PreRandString bool   `json:"pre_randString,omitempty"`
	PreUUID       bool   `json:"pre_uuid,omitempty"`
	Variables     bool   `json:"variables_source,omitempty"`
	Meta          string `json:"headers"`                 // none | const | tmpl : header (http) / metadata (grpc) maps of the steps
	PostJsonpath  bool   `json:"post_jsonpath,omitempty"` // http only
	PostHeader    bool   `json:"post_header,omitempty"`   // http only; modifiers lower, upper, replace, substr
	PostXpath     bool   `json:"post_xpath,omitempty"`    // http only
	PostAssert    bool   `json:"post_assert,omitempty"`
	Templater     string `json:"templater,omitempty"` // "" | text | html (http only)
	Repeat        int    `json:"repeat"`              // follow-up step is `name(Repeat)`
	Scenarios     int    `json:"scenarios"`           // scenarios (different weights) sharing the same step definitions
	SleepMs       int    `json:"sleep_ms,omitempty"`
	// FailEvery k > 0: the target gives every k-th invocation (token number divisible by k) an answer at step FailAt that a
	// postprocessor of that step rejects at run time, so the step fails and the rest of the invocation is dropped.
	FailEvery int    `json:"unsatisfying_answer_every,omitempty"`
	FailAt    string `json:"unsatisfying_answer_at,omitempty"`   // http: auth | use; grpc: auth | list | order
	FailKind  string `json:"unsatisfying_answer_kind,omitempty"` // http: body | status | header | notjson; grpc: payload
}

func (s *Scen) failsAt(step string) bool { return s.FailEvery > 0 && s.FailAt == step }

func (s *Scen) usesRandString() bool { return s.FnRandString || s.PreRandString }
func (s *Scen) usesRandIter() bool   { return s.Index == "rand" || s.RespIndex == "rand" }

// sharedObjects lists the class labels of the objects all instances of the pool share.
func (c Case) sharedObjects() []string {
	out := []string{"provider_queue", "aggregator_" + c.Agg}
	if c.SharedClients > 0 {
		out = append(out, "shared_client_"+c.Kind)
	}
	if p := c.Plain; p != nil {
		switch {
		case p.Format == "grpcjson":
			out = append(out, "ammo_pool_grpcjson")
		case p.Preload:
			out = append(out, "http_preloaded_ammo", "http_fmt_"+p.Format)
		default:
			out = append(out, "http_streamed_ammo", "http_fmt_"+p.Format)
		}
		if p.Format != "grpcjson" {
			re := p.redelivered(c.Shots)
			if p.Array {
				out = append(out, "http_json_array")
			}
			if re {
				out = append(out, "http_ammo_redelivered")
			}
			if p.HostHeader {
				out = append(out, "http_host_header_in_file")
			}
			if p.DateHeader != "" {
				out = append(out, "http_date_middleware")
				if p.DateHeader != "default" {
					out = append(out, "http_date_middleware_custom_header")
				}
				if re {
					out = append(out, "http_date_middleware_redelivered")
					// request headers are built from the ammo's own map only (no Host entry to split off)
					if p.Format == "jsonline" || ((p.Format == "uri" || p.Format == "uripost") && !p.HostHeader) {
						out = append(out, "http_date_middleware_redelivered_no_host_header")
					}
				}
			}
		}
	}
	if s := c.Scen; s != nil {
		k := "http_"
		if c.Kind == kindGRPCScen {
			k = "grpc_"
		}
		add := func(cond bool, name string) {
			if cond {
				out = append(out, k+name)
			}
		}
		out = append(out, k+"cloned_steps")
		add(s.Index != "", "idx_"+s.Index)
		add(s.RespIndex != "", "respidx_"+s.RespIndex)
		add(s.Index == "next" || s.RespIndex == "next", "next_iterator")
		add(s.usesRandIter(), "rand_iterator")
		add(s.Source != "", "source_"+s.Source)
		add(s.Variables, "source_variables")
		add(s.FnRandInt, "tmpl_randInt")
		add(s.FnRandString, "tmpl_randString")
		add(s.FnUUID, "tmpl_uuid")
		add(s.PreRandInt, "pre_randInt")
		add(s.PreRandString, "pre_randString")
		add(s.PreUUID, "pre_uuid")
		add(s.Meta == "const", "headers_const")
		add(s.Meta == "tmpl", "headers_tmpl")
		add(s.PostJsonpath, "post_jsonpath")
		add(s.PostHeader, "post_header_substr")
		add(s.PostXpath, "post_xpath")
		add(s.PostAssert, "post_assert")
		add(s.Templater == "html", "templater_html")
		add(s.Templater != "html", "templater_text")
		add(s.Scenarios > 1, "weighted_scenarios")
		add(s.Repeat > 1, "repeated_step")
		if s.FailEvery > 0 {
			add(true, "post_fails")
			add(true, "post_fails_at_"+s.FailAt)
			add(true, "post_fails_"+s.FailKind)
			add(s.FailEvery == 1, "post_fails_always")
			add(s.FailEvery > 1, "post_fails_sometimes")
			add(true, "post_fails_agg_"+c.Agg)
		}
	}
	sort.Strings(out)
	return out
}

func genIndex(t *rapid.T, label string) string {
	return rapid.SampledFrom([]string{"", "next", "next", "rand", "rand", "last", "last"}).Draw(t, label)
}

func genScen(t *rapid.T, grpc bool) *Scen {
	s := &Scen{}
	s.Index = genIndex(t, "rowIndex")
	if s.Index != "" || rapid.Bool().Draw(t, "sourceAnyway") {
		s.Source = rapid.SampledFrom([]string{"csv", "json"}).Draw(t, "source")
		s.Rows = rapid.IntRange(1, 7).Draw(t, "rows")
	}
	s.RespIndex = genIndex(t, "respIndex")
	s.FnRandInt = rapid.Bool().Draw(t, "fnRandInt")
	s.FnRandString = rapid.Bool().Draw(t, "fnRandString")
	s.FnUUID = rapid.Bool().Draw(t, "fnUUID")
	s.PreRandInt = rapid.Bool().Draw(t, "preRandInt")
	s.PreRandString = rapid.Bool().Draw(t, "preRandString")
	s.PreUUID = rapid.Bool().Draw(t, "preUUID")
	s.Variables = rapid.Bool().Draw(t, "variables")
	s.Meta = rapid.SampledFrom([]string{"none", "const", "tmpl", "tmpl"}).Draw(t, "headers")
	s.PostAssert = rapid.Bool().Draw(t, "postAssert")
	if !grpc {
		s.PostJsonpath = rapid.Bool().Draw(t, "postJsonpath")
		s.PostHeader = rapid.Bool().Draw(t, "postHeader")
		s.PostXpath = rapid.Bool().Draw(t, "postXpath")
		s.Templater = rapid.SampledFrom([]string{"", "text", "html", "html"}).Draw(t, "templater")
		if s.RespIndex != "" {
			s.PostJsonpath = true // the indexed array comes from the var/jsonpath postprocessor
		}
	}
	s.Repeat = rapid.IntRange(1, 3).Draw(t, "repeat")
	s.Scenarios = rapid.IntRange(1, 3).Draw(t, "scenarios")
	s.SleepMs = rapid.SampledFrom([]int{0, 0, 1, 2}).Draw(t, "sleepMs")
	// answers that a postprocessor rejects at run time: never, for every invocation, or for every 2nd..4th
	s.FailEvery = rapid.SampledFrom([]int{0, 0, 0, 1, 2, 2, 3, 4}).Draw(t, "failEvery")
	if s.FailEvery > 0 {
		if grpc {
			s.FailAt = rapid.SampledFrom([]string{"auth", "list", "order"}).Draw(t, "failAt")
			s.FailKind = "payload"
		} else {
			s.FailAt = rapid.SampledFrom([]string{"auth", "use"}).Draw(t, "failAt")
			s.FailKind = rapid.SampledFrom([]string{"body", "status", "header", "notjson"}).Draw(t, "failKind")
		}
	}
	s.normalize(grpc)
	return s
}

// normalize makes the switches consistent (a pure function of the drawn values).
func (s *Scen) normalize(grpc bool) {
	if s.FailEvery <= 0 {
		s.FailEvery, s.FailAt, s.FailKind = 0, "", ""
		return
	}
	if grpc {
		return
	}
	if s.FailKind == "notjson" {
		// the answer that is not JSON is rejected by var/jsonpath, which only the first step has
		s.FailAt, s.PostJsonpath = "auth", true
	}
	if s.FailAt == "use" {
		// the target has to know which invocation a `use` request belongs to
		s.PostJsonpath = true
	}
}

// genCase draws a case; r (may be nil) tells which findings are listed as known.
func genCase(t *rapid.T, r *vf.Run) Case {
	c := Case{}
	c.Kind = rapid.SampledFrom([]string{kindHTTP, kindHTTP, kindHTTPScen, kindHTTPScen, kindHTTPScen, kindGRPC, kindGRPCScen, kindGRPCScen, kindGRPCScen}).Draw(t, "kind")
	c.Instances = rapid.IntRange(2, 16).Draw(t, "instances")
	per := rapid.IntRange(2, 6).Draw(t, "shotsPerInstance")
	c.Shots = min(c.Instances*per, 72)
	c.Agg = rapid.SampledFrom([]string{"phout", "jsonlines"}).Draw(t, "aggregator")
	c.DelayUs = rapid.SampledFrom([]int{0, 300, 1000, 2500}).Draw(t, "delayUs")
	if c.Kind != kindGRPCScen && rapid.Bool().Draw(t, "sharedClient") { // the grpc/scenario gun has no shared-client option
		c.SharedClients = rapid.IntRange(1, 3).Draw(t, "clients")
	}
	switch c.Kind {
	case kindHTTP:
		c.Plain = &Plain{
			Format:  rapid.SampledFrom([]string{"uri", "uripost", "raw", "jsonline"}).Draw(t, "format"),
			Entries: rapid.IntRange(1, 8).Draw(t, "entries"),
			Preload: rapid.Bool().Draw(t, "preload"),
		}
		c.Plain.DateHeader = rapid.SampledFrom([]string{"", "", "default", "X-Stamp"}).Draw(t, "dateMiddleware")
		switch c.Plain.Format {
		case "jsonline":
			c.Plain.Array = rapid.Bool().Draw(t, "jsonArray")
		case "uri", "uripost":
			c.Plain.HostHeader = rapid.IntRange(0, 2).Draw(t, "hostHeader") == 0
		}
	case kindGRPC:
		c.Plain = &Plain{Format: "grpcjson", Entries: rapid.IntRange(1, 8).Draw(t, "entries")}
	case kindHTTPScen:
		c.Scen = genScen(t, false)
	case kindGRPCScen:
		c.Scen = genScen(t, true)
	}
	steer(&c, r)
	return c
}

// steer moves a case away from the listed known findings (and only from those).
func steer(c *Case, r *vf.Run) {
	s := c.Scen
	if r == nil || s == nil {
		return
	}
	if r.IsKnown(findingRandIter) && s.usesRandIter() {
		r.Excluded(findingRandIter)
		if s.Index == "rand" {
			s.Index = "next"
		}
		if s.RespIndex == "rand" {
			s.RespIndex = "next"
		}
	}
	if r.IsKnown(findingRandString) && s.usesRandString() {
		r.Excluded(findingRandString)
		s.FnRandString, s.PreRandString = false, false
	}
	if r.IsKnown(findingGRPCMeta) && c.Kind == kindGRPCScen && s.Meta != "none" {
		r.Excluded(findingGRPCMeta)
		s.Meta = "none"
	}
}

func contains(l []string, v string) bool {
	for _, x := range l {
		if x == v {
			return true
		}
	}
	return false
}

func (c Case) validate() error {
	switch c.Kind {
	case kindHTTP, kindGRPC:
		if c.Plain == nil || c.Plain.Entries < 1 {
			return fmt.Errorf("case of kind %s without ammo description", c.Kind)
		}
		if p := c.Plain; (p.Array && p.Format != "jsonline") || (p.HostHeader && p.Format != "uri" && p.Format != "uripost") ||
			(c.Kind == kindGRPC && (p.DateHeader != "" || p.Preload)) {
			return fmt.Errorf("ammo options that format %s does not have", p.Format)
		}
	case kindHTTPScen, kindGRPCScen:
		if c.Scen == nil {
			return fmt.Errorf("case of kind %s without scenario description", c.Kind)
		}
		if c.Scen.Index != "" && c.Scen.Source == "" {
			return fmt.Errorf("row index without a rows source")
		}
		if s := c.Scen; s.FailEvery > 0 {
			steps, kinds := []string{"auth", "use"}, []string{"body", "status", "header", "notjson"}
			if c.Kind == kindGRPCScen {
				steps, kinds = []string{"auth", "list", "order"}, []string{"payload"}
			}
			if !contains(steps, s.FailAt) || !contains(kinds, s.FailKind) {
				return fmt.Errorf("unsatisfying answers at step %q of kind %q are not defined for %s", s.FailAt, s.FailKind, c.Kind)
			}
			if c.Kind == kindHTTPScen && !s.PostJsonpath && (s.FailAt == "use" || s.FailKind == "notjson") {
				return fmt.Errorf("unsatisfying answers at %q / %q need the var/jsonpath postprocessor", s.FailAt, s.FailKind)
			}
		}
	default:
		return fmt.Errorf("unknown kind %q", c.Kind)
	}
	if c.Instances < 1 || c.Shots < 1 {
		return fmt.Errorf("instances and shots must be positive")
	}
	return nil
}
