package c11

// Case model and generator: one pool of any supported kind with 2..16 instances.

import (
	"fmt"
	"sort"

	"verif/harness/internal/vf"

	"pgregory.net/rapid"
)

// Finding ids (see known_findings.json). The generator steers around a feature
// only while its finding is listed as known.
const (
	findingRandIter   = "mp-nextiterator-rand-race"
	findingRandString = "str-randsource-race"
	findingGRPCMeta   = "grpc-scenario-metadata-rendered-in-place"
)

const (
	kindHTTP     = "http"
	kindHTTPScen = "http_scenario"
	kindGRPC     = "grpc"
	kindGRPCScen = "grpc_scenario"
)

type Case struct {
	Kind          string `json:"kind"`
	Instances     int    `json:"instances"`
	Shots         int    `json:"shots"` // ammo handed out in total
	Agg           string `json:"aggregator"`
	DelayUs       int    `json:"target_delay_us"` // think time of the target per request: makes shots of different instances overlap
	SharedClients int    `json:"shared_clients"`  // 0 = every instance has its own client
	Plain         *Plain `json:"plain,omitempty"`
	Scen          *Scen  `json:"scenario,omitempty"`
	// Rps: the sections of the rps schedule, which all instances of the pool share (no rps-per-instance): every instance
	// asks the same schedule object for Left and Next around each of its shots, also while another instance moves it on to
	// its next section. Empty = one `once` section.
	Rps []Section `json:"rps_sections,omitempty"`
	// RpsNested: the sections are written as {type: composite, nested: [..]} instead of as a plain list.
	RpsNested bool `json:"rps_as_composite_plugin,omitempty"`
	// Startup: how the instances are started; nil = all at once (`once`).
	Startup *Startup `json:"startup,omitempty"`
	// DiscardOverflow: the pool option `discard_overflow` (docs/eng/best_practices/discard-overflow.md): an instance that is
	// 2 s or more behind the schedule when it takes a token does not shoot; the acquired ammo goes back to the provider unused.
	DiscardOverflow bool `json:"discard_overflow,omitempty"`
	// Behind: the rps schedule was started in the past (core.Schedule.Start with an earlier time), so its leading tokens are
	// overdue from the first moment on, as they are for instances that are slower than the schedule - without any real waiting.
	Behind *Behind `json:"rps_started_in_the_past,omitempty"`
	// QueueSize > 0 (phout): the option `sample-queue-size` of the phout aggregator (default 256K). With a small queue the
	// instances find it full as soon as they report faster than the aggregator's goroutine writes - Report then waits for room.
	QueueSize int `json:"phout_sample_queue_size,omitempty"`
	// StartDelayMs > 0: the startup schedule begins with a pause of that length, so all instances start late - and, when the
	// rps schedule was started in the past, find its overdue tokens that much later: a run that lasts longer than the 1 s
	// flush period of the aggregators, with the discarded shots of all instances reported at full speed around the flush.
	StartDelayMs int `json:"instances_start_after_ms,omitempty"`
	// TargetBy (http, http/scenario): how the gun config names the target. "" = by IP (127.0.0.1:port); "name" = by host
	// name (localhost:port) while the target listens; "name_late" = by host name while nothing listens on the target's port
	// yet: the gun section is decoded, its attempt to pre-resolve the target is refused, so `dns-cache: true` (the default)
	// stays in force and the clients dial through the DNS caching dialer; the target comes up before the pool is run (docs,
	// PreResolveTargetAddr: "we should not fail shooting, we should try to connect on every shoot. DNS cache will save
	// resolved addr after first successful connect"). With shared-client that dialer belongs to all instances at once.
	TargetBy string `json:"target_named_by,omitempty"`
	// NoKeepAlive (http, http/scenario): the gun option `disable-keep-alives: true` - every request dials.
	NoKeepAlive bool `json:"disable_keep_alives,omitempty"`
	// CloseEvery k > 0 (http, http/scenario): the target answers every k-th request with `Connection: close` and drops the
	// connection, so the instance that shoots next on that client dials again while the others are shooting.
	CloseEvery int `json:"target_closes_connection_every,omitempty"`
	// AnswLog: the gun option `answlog` (docs: "answlog: enabled / path / filter"). "" = not named (disabled, the default);
	// "own" = `enabled: true` with a `path` of the pool's own in the working directory; "default" = `enabled: true` without a
	// path: the default file `answ.log` in the working directory, which all such pools of one engine name. The http guns make
	// their logger once, when the gun section is decoded - one logger for all instances; the grpc guns make theirs in the gun
	// constructor: on the goroutine of the pool (the warm-up gun) and on the goroutine of every instance.
	AnswLog string `json:"answlog,omitempty"`
	// AnswFilter: `filter` of the answ log ("" = not named, the default is all): all | warning | error. The target never answers
	// with a code of 400 or more, so only `all` (and "") writes while the instances shoot.
	AnswFilter string `json:"answlog_filter,omitempty"`
	// Siblings: further pools of the SAME engine (engine.Config.Pools: this pool first, then these), each a complete pool
	// description of its own - own gun, provider, target, aggregator file, schedules. The engine runs every pool on a goroutine
	// of its own: the pools warm their guns up, start their instances and make the instances' guns side by side, so whatever
	// the component constructors and the components share process-wide is reached from several pools at once.
	Siblings []Case `json:"sibling_pools,omitempty"`
}

const (
	answOwn     = "own"
	answDefault = "default"
)

// pools: the pools of the engine, this one (without its siblings) first.
func (c Case) pools() []Case {
	main := c
	main.Siblings = nil
	return append([]Case{main}, c.Siblings...)
}

func poolID(i int) string {
	if i == 0 {
		return "p"
	}
	return fmt.Sprintf("p%d", i)
}

func (c Case) grpcGun() bool { return c.Kind == kindGRPC || c.Kind == kindGRPCScen }

// answWrites: the gun writes into its answ log while it shoots.
func (c Case) answWrites() bool { return c.AnswLog != "" && (c.AnswFilter == "" || c.AnswFilter == "all") }

func (c Case) httpGun() bool { return c.Kind == kindHTTP || c.Kind == kindHTTPScen }

// redials: connections are opened all through the run, not only by the first shots.
func (c Case) redials() bool { return c.NoKeepAlive || c.CloseEvery > 0 }

// stormTokens: a Behind whose overdue sections hold that many tokens or more is a storm of discarded shots (the instances do
// nothing but acquire, give back and report for a while); defined with discard_overflow only - shot for real they would
// take minutes.
const stormTokens = 1000

func (c Case) storm() bool { return c.Behind != nil && c.Behind.certain() >= stormTokens }

// Behind describes a shared rps schedule that starts Ms milliseconds before the run: Lead are its sections that lie in the
// past, padded with a pause up to Ms; the sections of Case.Rps (or the single `once`) follow and begin when the run begins.
type Behind struct {
	Ms   int       `json:"started_ms_before_the_run"`
	Lead []Section `json:"overdue_sections"` // once | const (Tokens 0 = a pause); they last no more than Ms together
}

// overdueMs is the time an instance may be behind the schedule before discard_overflow drops the shot (coreutil.MaxOverdueDuration).
const overdueMs = 2000

func (b *Behind) leadMs() int {
	d := 0
	for _, s := range b.Lead {
		d += s.DurMs
	}
	return d
}

func (b *Behind) leadTokens() int { return finiteTokens(b.Lead) }

// certain: lead tokens that are due 2 s or more before the run begins; an instance can only meet them that much behind.
func (b *Behind) certain() int {
	n, at := 0, 0
	for _, s := range b.Lead {
		at += s.DurMs
		if b.Ms-at >= overdueMs {
			n += s.Tokens
		}
	}
	return n
}

// sections: the whole schedule as configured.
func (b *Behind) sections(rest []Section) []Section {
	out := append([]Section(nil), b.Lead...)
	if pad := b.Ms - b.leadMs(); pad > 0 {
		out = append(out, Section{Type: "const", DurMs: pad})
	}
	return append(out, rest...)
}

// certainDiscards: shots the pool has to discard for certain (more may be discarded on a stalled machine).
func (c Case) certainDiscards() int {
	if c.Behind == nil || !c.DiscardOverflow {
		return 0
	}
	return c.Behind.certain()
}

// rest: the ammo left for the sections that begin with the run.
func (c Case) rest() int {
	if c.Behind == nil {
		return c.Shots
	}
	return c.Shots - c.Behind.leadTokens()
}

// Section is one part of a composite schedule.
type Section struct {
	Type   string `json:"type"`                  // once | const | unlimited
	Tokens int    `json:"tokens,omitempty"`      // once: times; const: the tokens the section holds (0 = a pause; ops is derived from it)
	DurMs  int    `json:"duration_ms,omitempty"` // const, unlimited
}

// Startup describes a gradual start of the instances.
type Startup struct {
	Kind     string    `json:"kind"`               // composite | instance_step
	Sections []Section `json:"sections,omitempty"` // composite: tokens add up to the number of instances
	From     int       `json:"from,omitempty"`     // instance_step: From, From+Step, .. up to Instances
	Step     int       `json:"step,omitempty"`
	StepMs   int       `json:"step_duration_ms,omitempty"`
}

// constOps is the `ops` value that makes a const section of d ms hold exactly n tokens
// (pandora: n = int64(ops * seconds); half a token of head room against float rounding).
func constOps(n, dMs int) float64 {
	if n <= 0 {
		return 0
	}
	return float64(2*n+1) * 500 / float64(dMs)
}

// constTokens is pandora's own formula (schedule.NewConst) for the number of tokens of a const section.
func constTokens(ops float64, dMs int) int {
	return int(int64(ops * (float64(int64(dMs)*1e6) / 1e9)))
}

// finiteTokens: tokens held by the once / const sections.
func finiteTokens(secs []Section) int {
	n := 0
	for _, s := range secs {
		if s.Type != "unlimited" {
			n += s.Tokens
		}
	}
	return n
}

func validateSections(secs []Section, what string) error {
	for i, s := range secs {
		switch s.Type {
		case "once":
			if s.Tokens < 1 {
				return fmt.Errorf("%s section %d: once needs times >= 1", what, i)
			}
		case "const":
			if s.DurMs < 1 || s.Tokens < 0 {
				return fmt.Errorf("%s section %d: const needs a duration >= 1ms and tokens >= 0", what, i)
			}
			if got := constTokens(constOps(s.Tokens, s.DurMs), s.DurMs); got != s.Tokens {
				return fmt.Errorf("%s section %d: derived ops give %d tokens, wanted %d", what, i, got, s.Tokens)
			}
		case "unlimited":
			if s.DurMs < 1 {
				return fmt.Errorf("%s section %d: unlimited needs a duration >= 1ms", what, i)
			}
		default:
			return fmt.Errorf("%s section %d: unknown type %q", what, i, s.Type)
		}
	}
	return nil
}

// Plain describes the ammo of an http or grpc pool.
type Plain struct {
	Format  string `json:"format"` // uri | uripost | raw | jsonline | grpcjson
	Entries int    `json:"entries"`
	Preload bool   `json:"preload,omitempty"`
	// Array (jsonline only): the file is one JSON array; its decoded ammo are kept by the decoder and served again every pass.
	Array bool `json:"json_array,omitempty"`
	// DateHeader: "" = no middleware; "default" = the built-in `header/date` middleware as it is; otherwise its headerName.
	// A middleware writes into the request an instance acquired, i.e. into whatever that request shares with the decoded ammo.
	DateHeader string `json:"date_middleware,omitempty"`
	// HostHeader (uri / uripost): the file carries a `[Host: ..]` directive (raw and http/json entries always name a host).
	HostHeader bool `json:"host_header,omitempty"`
	// BodyKiB > 0 (uripost / raw / http/json): every entry carries a body of BodyKiB KiB and 101 bytes more per entry index,
	// filled with the entry's own letter: such a request does not fit into the 4 KiB that the standard library's readers
	// buffer, so most of the body is still read from the ammo's memory while the gun sends it - after the instance acquired
	// it and while the provider goroutine decodes further entries for other instances.
	BodyKiB int `json:"body_kib,omitempty"`
	// PadHeader > 0 (raw / http/json): every entry carries a header X-Pad of that many bytes of the entry's own letter.
	PadHeader int `json:"pad_header_bytes,omitempty"`
}

// big: the requests of the file exceed 4 KiB.
func (p *Plain) big() bool { return p != nil && (p.BodyKiB > 0 || p.PadHeader >= 4096) }

// redelivered: the same decoded ammo object is handed out more than once (to different instances).
func (p *Plain) redelivered(shots int) bool {
	return p != nil && p.Format != "grpcjson" && (p.Preload || (p.Format == "jsonline" && p.Array)) && shots > p.Entries
}

// dateHeaderName is the header the configured middleware stamps ("" = no middleware).
func (p *Plain) dateHeaderName() string {
	switch p.DateHeader {
	case "":
		return ""
	case "default":
		return "Date"
	}
	return p.DateHeader
}

// Scen describes a generated scenario (http/scenario: auth -> use(n); grpc/scenario: auth -> list -> order(n)).
// Every field switches on one object that all instances share.
type Scen struct {
	Source        string `json:"rows_source,omitempty"`    // csv | json: the `users` source
	Rows          int    `json:"rows,omitempty"`           //
	Index         string `json:"row_index,omitempty"`      // next | rand | last: preprocessor `row: source.users[..]`
	RespIndex     string `json:"response_index,omitempty"` // next | rand | last: preprocessor indexing an array of an earlier response
	FnRandInt     bool   `json:"tmpl_randInt,omitempty"`   // {{randInt a b}} in templates
	FnRandString  bool   `json:"tmpl_randString,omitempty"`
	FnUUID        bool   `json:"tmpl_uuid,omitempty"`
	PreRandInt    bool   `json:"pre_randInt,omitempty"` // randInt(a, b) in a preprocessor mapping
	PreRandString bool   `json:"pre_randString,omitempty"`
	PreUUID       bool   `json:"pre_uuid,omitempty"`
	Variables     bool   `json:"variables_source,omitempty"`
	Meta          string `json:"headers"`                 // none | const | tmpl : header (http) / metadata (grpc) maps of the steps
	PostJsonpath  bool   `json:"post_jsonpath,omitempty"` // http only
	PostHeader    bool   `json:"post_header,omitempty"`   // http only; modifiers lower, upper, replace, substr
	PostXpath     bool   `json:"post_xpath,omitempty"`    // http only
	PostAssert    bool   `json:"post_assert,omitempty"`
	Templater     string `json:"templater,omitempty"` // "" | text | html (http only)
	Repeat        int    `json:"repeat"`              // follow-up step is `name(Repeat)`
	Scenarios     int    `json:"scenarios"`           // scenarios (different weights) sharing the same step definitions
	SleepMs       int    `json:"sleep_ms,omitempty"`
	// FailEvery k > 0: the target gives every k-th invocation (token number divisible by k) an answer at step FailAt that a
	// postprocessor of that step rejects at run time, so the step fails and the rest of the invocation is dropped.
	FailEvery int    `json:"unsatisfying_answer_every,omitempty"`
	FailAt    string `json:"unsatisfying_answer_at,omitempty"`   // http: auth | use; grpc: auth | list | order
	FailKind  string `json:"unsatisfying_answer_kind,omitempty"` // http: body | status | header | notjson; grpc: payload
}

func (s *Scen) failsAt(step string) bool { return s.FailEvery > 0 && s.FailAt == step }

func (s *Scen) usesRandString() bool { return s.FnRandString || s.PreRandString }
func (s *Scen) usesRandIter() bool   { return s.Index == "rand" || s.RespIndex == "rand" }

// sharedObjects lists the class labels of the objects all instances of the pool share.
func (c Case) sharedObjects() []string {
	out := []string{"provider_queue", "aggregator_" + c.Agg}
	if c.SharedClients > 0 {
		out = append(out, "shared_client_"+c.Kind)
	}
	if c.AnswLog != "" {
		// http guns: one logger (one file) for all instances of the pool; grpc guns: one per gun, made by the gun constructor
		out = append(out, "answlog", "answlog_"+c.Kind, "answlog_file_"+c.AnswLog)
		if c.answWrites() {
			out = append(out, "answlog_written_while_shooting")
		}
	}
	if c.httpGun() {
		by := map[string]string{targetByIP: "ip", targetByName: "host_name_reachable_at_decode", targetByNameLate: "host_name_unreachable_at_decode"}[c.TargetBy]
		out = append(out, "http_target_by_"+by)
		if c.NoKeepAlive {
			out = append(out, "http_keep_alives_disabled")
		}
		if c.CloseEvery > 0 {
			out = append(out, "http_target_drops_connections")
		}
		if c.TargetBy == targetByNameLate {
			// the DNS caching dialer (and the process-wide cache behind it) is what the clients dial through
			out = append(out, "dns_caching_dialer_"+c.Kind)
			if c.SharedClients > 0 {
				out = append(out, "dns_caching_dialer_of_shared_client", "dns_caching_dialer_of_shared_client_"+c.Kind)
				if c.redials() {
					out = append(out, "dns_caching_dialer_of_shared_client_redialing")
				}
			} else if c.redials() {
				out = append(out, "dns_caching_dialer_per_instance_redialing")
			}
		}
	}
	if p := c.Plain; p != nil {
		switch {
		case p.Format == "grpcjson":
			out = append(out, "ammo_pool_grpcjson")
		case p.Preload:
			out = append(out, "http_preloaded_ammo", "http_fmt_"+p.Format)
		default:
			out = append(out, "http_streamed_ammo", "http_fmt_"+p.Format)
		}
		if p.BodyKiB > 0 {
			how := "streamed"
			if p.Preload {
				how = "preloaded"
			}
			out = append(out, "http_big_body", "http_big_body_fmt_"+p.Format, "http_big_body_"+how, "http_big_body_"+p.Format+"_"+how)
			if p.Entries > 1 {
				out = append(out, "http_big_body_differs_per_entry")
				if !p.Preload {
					out = append(out, "http_big_body_differs_per_entry_streamed_"+p.Format)
				}
			}
			if p.DateHeader != "" {
				out = append(out, "http_big_body_with_date_middleware")
			}
		}
		if p.PadHeader > 0 {
			out = append(out, "http_big_header")
		}
		if p.Format != "grpcjson" {
			re := p.redelivered(c.Shots)
			if p.Array {
				out = append(out, "http_json_array")
			}
			if re {
				out = append(out, "http_ammo_redelivered")
			}
			if p.HostHeader {
				out = append(out, "http_host_header_in_file")
			}
			if p.DateHeader != "" {
				out = append(out, "http_date_middleware")
				if p.DateHeader != "default" {
					out = append(out, "http_date_middleware_custom_header")
				}
				if re {
					out = append(out, "http_date_middleware_redelivered")
					// request headers are built from the ammo's own map only (no Host entry to split off)
					if p.Format == "jsonline" || ((p.Format == "uri" || p.Format == "uripost") && !p.HostHeader) {
						out = append(out, "http_date_middleware_redelivered_no_host_header")
					}
				}
			}
		}
	}
	if s := c.Scen; s != nil {
		k := "http_"
		if c.Kind == kindGRPCScen {
			k = "grpc_"
		}
		add := func(cond bool, name string) {
			if cond {
				out = append(out, k+name)
			}
		}
		out = append(out, k+"cloned_steps")
		add(s.Index != "", "idx_"+s.Index)
		add(s.RespIndex != "", "respidx_"+s.RespIndex)
		add(s.Index == "next" || s.RespIndex == "next", "next_iterator")
		add(s.usesRandIter(), "rand_iterator")
		add(s.Source != "", "source_"+s.Source)
		add(s.Variables, "source_variables")
		add(s.FnRandInt, "tmpl_randInt")
		add(s.FnRandString, "tmpl_randString")
		add(s.FnUUID, "tmpl_uuid")
		add(s.PreRandInt, "pre_randInt")
		add(s.PreRandString, "pre_randString")
		add(s.PreUUID, "pre_uuid")
		add(s.Meta == "const", "headers_const")
		add(s.Meta == "tmpl", "headers_tmpl")
		add(s.PostJsonpath, "post_jsonpath")
		add(s.PostHeader, "post_header_substr")
		add(s.PostXpath, "post_xpath")
		add(s.PostAssert, "post_assert")
		add(s.Templater == "html", "templater_html")
		add(s.Templater != "html", "templater_text")
		add(s.Scenarios > 1, "weighted_scenarios")
		add(s.Repeat > 1, "repeated_step")
		if s.FailEvery > 0 {
			add(true, "post_fails")
			add(true, "post_fails_at_"+s.FailAt)
			add(true, "post_fails_"+s.FailKind)
			add(s.FailEvery == 1, "post_fails_always")
			add(s.FailEvery > 1, "post_fails_sometimes")
			add(true, "post_fails_agg_"+c.Agg)
		}
	}
	sort.Strings(out)
	return out
}

// scheduleClasses names the schedule objects of the pool (the rps schedule is shared by all instances).
func (c Case) scheduleClasses() []string {
	var out []string
	if len(c.Rps) == 0 && c.Behind != nil {
		out = append(out, "rps_overdue_sections_then_once")
	} else if len(c.Rps) == 0 {
		out = append(out, "rps_single_once")
	} else {
		out = append(out, "rps_composite", fmt.Sprintf("rps_composite_%d_sections", len(c.Rps)))
		if c.RpsNested {
			out = append(out, "rps_composite_as_plugin")
		} else {
			out = append(out, "rps_composite_as_list")
		}
		seen := map[string]bool{}
		for _, s := range c.Rps {
			k := "rps_section_" + s.Type
			if s.Type == "const" && s.Tokens == 0 {
				k = "rps_section_pause"
			}
			if !seen[k] {
				seen[k] = true
				out = append(out, k)
			}
		}
	}
	switch {
	case c.Startup == nil:
		out = append(out, "startup_once")
	default:
		out = append(out, "startup_gradual", "startup_"+c.Startup.Kind)
		if c.Startup.Kind == "instance_step" && c.Startup.From == 0 {
			out = append(out, "startup_instance_step_from_0")
		}
		if len(c.Rps) > 0 {
			out = append(out, "rps_composite_with_gradual_startup")
		}
	}
	if c.StartDelayMs > 0 {
		out = append(out, "startup_delayed")
	}
	if c.storm() {
		out = append(out, "discard_storm", "discard_storm_agg_"+c.Agg)
		if c.StartDelayMs > 0 {
			out = append(out, "discard_storm_after_delayed_startup")
			if c.Agg == "phout" && c.QueueSize > 0 {
				out = append(out, "discard_storm_after_delayed_startup_phout_small_queue")
			}
		}
	}
	if c.DiscardOverflow {
		out = append(out, "discard_overflow_on")
	} else {
		out = append(out, "discard_overflow_off")
	}
	if b := c.Behind; b != nil {
		out = append(out, "rps_started_in_the_past")
		if c.DiscardOverflow {
			out = append(out, "overdue_tokens_to_discard")
			if c.Plain != nil && c.Plain.Format == "grpcjson" {
				out = append(out, "overdue_tokens_to_discard_with_pooled_ammo")
			}
			if b.leadTokens() > b.certain() {
				out = append(out, "overdue_tokens_to_discard_and_late_tokens_to_shoot")
			}
		} else {
			out = append(out, "overdue_tokens_to_shoot_late")
		}
		for _, s := range b.Lead {
			if s.Tokens > 0 {
				out = append(out, "overdue_section_"+s.Type)
			}
		}
		if len(c.Rps) > 0 {
			out = append(out, "overdue_tokens_before_composite_rps")
		}
		if c.Startup != nil {
			out = append(out, "overdue_tokens_with_gradual_startup")
		}
	}
	return uniq(out)
}

func uniq(l []string) []string {
	seen := map[string]bool{}
	out := l[:0]
	for _, v := range l {
		if !seen[v] {
			seen[v] = true
			out = append(out, v)
		}
	}
	return out
}

// genBehind draws a schedule start 2.2-4 s in the past and 1-3 bursts of overdue tokens: the first one (and mostly all)
// due 2 s or more before the run, optionally a last one due 0.2-1.2 s before the run (late, but to be shot). The bursts
// hold no more than half of the ammo.
func genBehind(t *rapid.T, shots int) *Behind {
	b := &Behind{Ms: rapid.IntRange(2200, 4000).Draw(t, "behindMs")}
	room := max(1, shots/2)
	bursts := rapid.IntRange(1, 2).Draw(t, "overdueBursts")
	early := b.Ms - overdueMs // the bursts to discard fit in here
	used := 0
	burst := func(maxMs int) {
		n := rapid.IntRange(1, max(1, min(room, 24))).Draw(t, "overdueTokens")
		room -= n
		if maxMs >= 1 && rapid.Bool().Draw(t, "overdueConst") {
			d := rapid.IntRange(1, min(maxMs, 50)).Draw(t, "overdueMs")
			b.Lead = append(b.Lead, Section{Type: "const", Tokens: n, DurMs: d})
			used += d
			return
		}
		b.Lead = append(b.Lead, Section{Type: "once", Tokens: n})
	}
	for i := 0; i < bursts && room > 0; i++ {
		if i > 0 {
			p := rapid.IntRange(1, max(1, (early-used)/2)).Draw(t, "overduePauseMs")
			b.Lead = append(b.Lead, Section{Type: "const", DurMs: p})
			used += p
		}
		burst((early - used) / 2)
	}
	if room > 0 && rapid.IntRange(0, 3).Draw(t, "lateBurst") == 0 {
		// a burst that is due 0.2-1.2 s before the run: overdue, but not by 2 s
		at := b.Ms - rapid.IntRange(200, 1200).Draw(t, "lateMs")
		b.Lead = append(b.Lead, Section{Type: "const", DurMs: at - used})
		used = at
		burst(50)
	}
	return b
}

// stormPerMs: overdue tokens per millisecond between the late
// start of the instances and the 1 s mark (more than the instances of a pool discard per ms: one provider goroutine hands
// the ammo out one by one), so that the storm is still on when the aggregator flushes for the first time.
const stormPerMs = 120

// genStorm makes the case a run that is longer than the aggregators' flush period of 1 s, with all instances reporting at
// full speed around the periodic flush: the instances start 0.85-0.94 s late (a pause at the head of the startup schedule) and
// then find 9-24 thousand tokens of the shared rps schedule overdue by more than 2 s, which discard_overflow makes them drop -
// acquire, give back, report the `discarded` sample - one after the other without any waiting. The ammo of the case itself
// follow as in every other case. In 8 of 10 such cases the aggregator is phout, mostly with a small `sample-queue-size`.
func genStorm(t *rapid.T, c *Case) {
	c.StartDelayMs = rapid.IntRange(850, 940).Draw(t, "startDelayMs")
	k := (1000-c.StartDelayMs)*stormPerMs + rapid.IntRange(2000, 6000).Draw(t, "stormTokens")
	b := &Behind{Ms: rapid.IntRange(2200, 4000).Draw(t, "behindMs")}
	early := b.Ms - overdueMs
	switch rapid.IntRange(0, 2).Draw(t, "stormShape") {
	case 0:
		b.Lead = []Section{{Type: "once", Tokens: k}}
	case 1:
		b.Lead = []Section{{Type: "const", Tokens: k, DurMs: rapid.IntRange(1, min(early, 50)).Draw(t, "overdueMs")}}
	default:
		n := rapid.IntRange(1, k-1).Draw(t, "firstBurst")
		b.Lead = []Section{{Type: "once", Tokens: n}, {Type: "const", DurMs: rapid.IntRange(1, early/2).Draw(t, "overduePauseMs")}, {Type: "once", Tokens: k - n}}
	}
	c.Behind = b
	c.Shots += k
	c.DiscardOverflow = true
	if rapid.IntRange(0, 9).Draw(t, "stormPhout") < 8 {
		c.Agg = "phout"
		c.QueueSize = rapid.SampledFrom([]int{1, 1, 2, 2, 16, 0}).Draw(t, "phoutQueue")
	} else if c.Agg != "phout" {
		c.QueueSize = 0
	}
}

// genRps draws 2-4 short sections whose switches all happen while ammo is left: the once / const sections before
// the last one hold fewer tokens than there are ammo, the last one holds the rest and five more (the ammo limit ends the run).
func genRps(t *rapid.T, shots int) []Section {
	k := min(rapid.IntRange(2, 4).Draw(t, "rpsSections"), shots)
	secs := make([]Section, 0, k)
	room := shots - 1 // tokens that may be given to the sections before the last one
	used := 0
	for i := 0; i < k-1; i++ {
		n := rapid.IntRange(1, room-used-(k-2-i)).Draw(t, "sectionTokens")
		typ := rapid.SampledFrom([]string{"once", "once", "once", "const", "const", "const", "pause", "unlimited"}).Draw(t, "sectionType")
		switch typ {
		case "once":
			secs = append(secs, Section{Type: "once", Tokens: n})
			used += n
		case "const":
			secs = append(secs, Section{Type: "const", Tokens: n, DurMs: rapid.IntRange(1, min(4, max(1, n/3))).Draw(t, "sectionMs")})
			used += n
		case "pause":
			secs = append(secs, Section{Type: "const", DurMs: rapid.IntRange(1, 2).Draw(t, "sectionMs")})
		case "unlimited":
			secs = append(secs, Section{Type: "unlimited", DurMs: rapid.IntRange(1, 2).Draw(t, "sectionMs")})
		}
	}
	rest := shots + 5 - used
	if rapid.Bool().Draw(t, "lastConst") {
		secs = append(secs, Section{Type: "const", Tokens: rest, DurMs: rapid.IntRange(1, min(4, max(1, rest/3))).Draw(t, "sectionMs")})
	} else {
		secs = append(secs, Section{Type: "once", Tokens: rest})
	}
	return secs
}

// genStartup draws a gradual start of all the instances over a few milliseconds.
func genStartup(t *rapid.T, instances int) *Startup {
	if rapid.Bool().Draw(t, "instanceStep") {
		step := rapid.IntRange(1, min(4, instances)).Draw(t, "step")
		steps := rapid.IntRange(1, min(4, instances/step)).Draw(t, "steps")
		return &Startup{Kind: "instance_step", From: instances - step*steps, Step: step, StepMs: rapid.IntRange(1, 3).Draw(t, "stepMs")}
	}
	k := rapid.IntRange(2, min(3, instances)).Draw(t, "startupParts")
	st := &Startup{Kind: "composite"}
	left := instances
	for i := 0; i < k; i++ {
		n := left
		if i < k-1 {
			n = rapid.IntRange(1, left-(k-1-i)).Draw(t, "partInstances")
		}
		left -= n
		if i > 0 && rapid.Bool().Draw(t, "partConst") {
			st.Sections = append(st.Sections, Section{Type: "const", Tokens: n, DurMs: rapid.IntRange(1, 3).Draw(t, "partMs")})
			continue
		}
		if i > 0 && st.Sections[len(st.Sections)-1].Type == "once" {
			st.Sections = append(st.Sections, Section{Type: "const", DurMs: rapid.IntRange(1, 3).Draw(t, "pauseMs")}) // a pause
		}
		st.Sections = append(st.Sections, Section{Type: "once", Tokens: n})
	}
	return st
}

func genIndex(t *rapid.T, label string) string {
	return rapid.SampledFrom([]string{"", "next", "next", "rand", "rand", "last", "last"}).Draw(t, label)
}

func genScen(t *rapid.T, grpc bool) *Scen {
	s := &Scen{}
	s.Index = genIndex(t, "rowIndex")
	if s.Index != "" || rapid.Bool().Draw(t, "sourceAnyway") {
		s.Source = rapid.SampledFrom([]string{"csv", "json"}).Draw(t, "source")
		s.Rows = rapid.IntRange(1, 7).Draw(t, "rows")
	}
	s.RespIndex = genIndex(t, "respIndex")
	s.FnRandInt = rapid.Bool().Draw(t, "fnRandInt")
	s.FnRandString = rapid.Bool().Draw(t, "fnRandString")
	s.FnUUID = rapid.Bool().Draw(t, "fnUUID")
	s.PreRandInt = rapid.Bool().Draw(t, "preRandInt")
	s.PreRandString = rapid.Bool().Draw(t, "preRandString")
	s.PreUUID = rapid.Bool().Draw(t, "preUUID")
	s.Variables = rapid.Bool().Draw(t, "variables")
	s.Meta = rapid.SampledFrom([]string{"none", "const", "tmpl", "tmpl"}).Draw(t, "headers")
	s.PostAssert = rapid.Bool().Draw(t, "postAssert")
	if !grpc {
		s.PostJsonpath = rapid.Bool().Draw(t, "postJsonpath")
		s.PostHeader = rapid.Bool().Draw(t, "postHeader")
		s.PostXpath = rapid.Bool().Draw(t, "postXpath")
		s.Templater = rapid.SampledFrom([]string{"", "text", "html", "html"}).Draw(t, "templater")
		if s.RespIndex != "" {
			s.PostJsonpath = true // the indexed array comes from the var/jsonpath postprocessor
		}
	}
	s.Repeat = rapid.IntRange(1, 3).Draw(t, "repeat")
	s.Scenarios = rapid.IntRange(1, 3).Draw(t, "scenarios")
	s.SleepMs = rapid.SampledFrom([]int{0, 0, 1, 2}).Draw(t, "sleepMs")
	// answers that a postprocessor rejects at run time: never, for every invocation, or for every 2nd..4th
	s.FailEvery = rapid.SampledFrom([]int{0, 0, 0, 1, 2, 2, 3, 4}).Draw(t, "failEvery")
	if s.FailEvery > 0 {
		if grpc {
			s.FailAt = rapid.SampledFrom([]string{"auth", "list", "order"}).Draw(t, "failAt")
			s.FailKind = "payload"
		} else {
			s.FailAt = rapid.SampledFrom([]string{"auth", "use"}).Draw(t, "failAt")
			s.FailKind = rapid.SampledFrom([]string{"body", "status", "header", "notjson"}).Draw(t, "failKind")
		}
	}
	s.normalize(grpc)
	return s
}

// normalize makes the switches consistent (a pure function of the drawn values).
func (s *Scen) normalize(grpc bool) {
	if s.FailEvery <= 0 {
		s.FailEvery, s.FailAt, s.FailKind = 0, "", ""
		return
	}
	if grpc {
		return
	}
	if s.FailKind == "notjson" {
		// the answer that is not JSON is rejected by var/jsonpath, which only the first step has
		s.FailAt, s.PostJsonpath = "auth", true
	}
	if s.FailAt == "use" {
		// the target has to know which invocation a `use` request belongs to
		s.PostJsonpath = true
	}
}

// genCase draws a case; r (may be nil) tells which findings are listed as known.
func genCase(t *rapid.T, r *vf.Run) Case {
	c := genPool(t, r, nil)
	// further pools of the same engine (drawn last: the draws above keep their meaning for a given seed): 3 cases of 10 are
	// engines of 2-4 pools. A sibling is a whole pool of its own - any kind, any of the options above except the storm of
	// discarded shots, 2-6 instances - in half of the draws of the kind of the first pool.
	if rapid.IntRange(0, 9).Draw(t, "multiPool") < 2 {
		n := rapid.IntRange(1, 3).Draw(t, "siblingPools")
		for i := 0; i < n; i++ {
			c.Siblings = append(c.Siblings, genPool(t, r, &c))
		}
	}
	return c
}

var allKinds = []string{kindHTTP, kindHTTP, kindHTTPScen, kindHTTPScen, kindHTTPScen, kindGRPC, kindGRPCScen, kindGRPCScen, kindGRPCScen}

// siblingKinds: the four kinds evenly (the guns whose constructor does work of its own - grpc, grpc/scenario - first).
var siblingKinds = []string{kindGRPC, kindGRPCScen, kindHTTP, kindHTTPScen}

// genPool draws one pool: the first one of the engine (first == nil) or a sibling of `first`.
func genPool(t *rapid.T, r *vf.Run, first *Case) Case {
	c := Case{}
	sibling := first != nil
	if sibling && rapid.Bool().Draw(t, "siblingOfSameKind") {
		c.Kind = first.Kind
	} else if sibling {
		c.Kind = rapid.SampledFrom(siblingKinds).Draw(t, "kind")
	} else {
		c.Kind = rapid.SampledFrom(allKinds).Draw(t, "kind")
	}
	if sibling {
		c.Instances = rapid.IntRange(2, 6).Draw(t, "instances")
		c.Shots = min(c.Instances*rapid.IntRange(2, 4).Draw(t, "shotsPerInstance"), 24)
	} else {
		c.Instances = rapid.IntRange(2, 16).Draw(t, "instances")
		per := rapid.IntRange(2, 6).Draw(t, "shotsPerInstance")
		c.Shots = min(c.Instances*per, 72)
	}
	c.Agg = rapid.SampledFrom([]string{"phout", "jsonlines"}).Draw(t, "aggregator")
	c.DelayUs = rapid.SampledFrom([]int{0, 300, 1000, 2500}).Draw(t, "delayUs")
	if c.Kind != kindGRPCScen && rapid.Bool().Draw(t, "sharedClient") { // the grpc/scenario gun has no shared-client option
		c.SharedClients = rapid.IntRange(1, 3).Draw(t, "clients")
	}
	switch c.Kind {
	case kindHTTP:
		c.Plain = &Plain{
			// (rapid's SampledFrom favours the head of the list; raw keeps the request text of the file as it is)
			Format:  rapid.SampledFrom([]string{"uri", "raw", "uripost", "jsonline", "raw"}).Draw(t, "format"),
			Entries: rapid.IntRange(1, 8).Draw(t, "entries"),
			Preload: rapid.Bool().Draw(t, "preload"),
		}
		c.Plain.DateHeader = rapid.SampledFrom([]string{"", "", "default", "X-Stamp"}).Draw(t, "dateMiddleware")
		switch c.Plain.Format {
		case "jsonline":
			c.Plain.Array = rapid.Bool().Draw(t, "jsonArray")
		case "uri", "uripost":
			c.Plain.HostHeader = rapid.IntRange(0, 2).Draw(t, "hostHeader") == 0
		}
		if f := c.Plain.Format; f != "uri" {
			// requests that exceed the 4 KiB of the standard library's readers: half of the files with bodies (raw, the format
			// that keeps the request text as it is in the file: 7 of 10)
			odds := 5
			if f == "raw" {
				odds = 7
			}
			if rapid.IntRange(0, 9).Draw(t, "bigBody") < odds {
				c.Plain.BodyKiB = rapid.IntRange(5, 30).Draw(t, "bodyKiB")
			}
			if f != "uripost" {
				c.Plain.PadHeader = rapid.SampledFrom([]int{0, 0, 0, 700, 2500, 5000}).Draw(t, "padHeader")
			}
		}
	case kindGRPC:
		c.Plain = &Plain{Format: "grpcjson", Entries: rapid.IntRange(1, 8).Draw(t, "entries")}
	case kindHTTPScen:
		c.Scen = genScen(t, false)
	case kindGRPCScen:
		c.Scen = genScen(t, true)
	}
	// schedules: the rps schedule is one object shared by all instances
	behind := 4
	if c.Kind == kindGRPC {
		behind = 7 // the provider whose ammo objects are pooled: a discarded shot hands its object back for the next entry
	}
	if c.Agg == "phout" {
		c.QueueSize = rapid.SampledFrom([]int{0, 0, 0, 1, 2, 16}).Draw(t, "phoutQueue")
	}
	if !sibling && rapid.IntRange(0, 9).Draw(t, "discardStorm") == 8 {
		// (rapid's IntRange favours small values and the bounds: 8 comes up in 6-7 draws of 100; a storm costs 1-1.5 s per round)
		genStorm(t, &c)
	} else if rapid.IntRange(0, 9).Draw(t, "rpsBehind") < behind {
		c.Behind = genBehind(t, c.Shots)
		c.DiscardOverflow = rapid.IntRange(0, 4).Draw(t, "discardOverflow") > 0
	} else {
		c.DiscardOverflow = rapid.Bool().Draw(t, "discardOverflow")
	}
	if rapid.IntRange(0, 9).Draw(t, "rpsComposite") < 6 {
		c.Rps = genRps(t, c.rest())
		c.RpsNested = rapid.Bool().Draw(t, "rpsNested")
	}
	if rapid.IntRange(0, 9).Draw(t, "gradualStartup") < 4 {
		c.Startup = genStartup(t, c.Instances)
	}
	if c.StartDelayMs == 0 && rapid.IntRange(0, 19).Draw(t, "startDelay") == 0 {
		c.StartDelayMs = rapid.IntRange(1, 40).Draw(t, "startDelayMs") // a short pause before the first instance
	}
	if c.httpGun() {
		// how the gun config names the target (drawn last: the draws above keep their meaning for a given seed)
		switch k := rapid.IntRange(0, 9).Draw(t, "targetBy"); {
		case k < 4:
			c.TargetBy = targetByNameLate
		case k == 4 || k == 5:
			c.TargetBy = targetByName
		}
		c.NoKeepAlive = rapid.IntRange(0, 9).Draw(t, "noKeepAlive") < 3
		c.CloseEvery = rapid.SampledFrom([]int{0, 0, 0, 1, 2, 3, 5}).Draw(t, "closeEvery")
	}
	// the gun's answ log (drawn last): 4 pools of 10, 6 of 10 in the siblings of an engine of several pools; the pool's own
	// file or (1 of 3) the default one, which such pools of one engine share; the filter not named / all (2 of 3) or warning / error
	answ := 4
	if sibling {
		answ = 6
	}
	if rapid.IntRange(0, 9).Draw(t, "answLog") < answ {
		files := []string{answOwn, answOwn, answDefault}
		if sibling {
			files = []string{answDefault, answOwn, answOwn}
		}
		c.AnswLog = rapid.SampledFrom(files).Draw(t, "answLogFile")
		c.AnswFilter = rapid.SampledFrom([]string{"", "all", "all", "all", "warning", "error"}).Draw(t, "answLogFilter")
	}
	steer(&c, r)
	return c
}

// steer moves a case away from the listed known findings (and only from those).
func steer(c *Case, r *vf.Run) {
	s := c.Scen
	if r == nil || s == nil {
		return
	}
	if r.IsKnown(findingRandIter) && s.usesRandIter() {
		r.Excluded(findingRandIter)
		if s.Index == "rand" {
			s.Index = "next"
		}
		if s.RespIndex == "rand" {
			s.RespIndex = "next"
		}
	}
	if r.IsKnown(findingRandString) && s.usesRandString() {
		r.Excluded(findingRandString)
		s.FnRandString, s.PreRandString = false, false
	}
	if r.IsKnown(findingGRPCMeta) && c.Kind == kindGRPCScen && s.Meta != "none" {
		r.Excluded(findingGRPCMeta)
		s.Meta = "none"
	}
}

func contains(l []string, v string) bool {
	for _, x := range l {
		if x == v {
			return true
		}
	}
	return false
}

func (c Case) validate() error {
	if len(c.Siblings) > 7 {
		return fmt.Errorf("engines of 1..8 pools are defined")
	}
	for i, sc := range c.Siblings {
		if len(sc.Siblings) > 0 || sc.storm() {
			return fmt.Errorf("sibling pool %d: a sibling has no siblings of its own and is no storm of discarded shots", i+1)
		}
		if err := sc.validate(); err != nil {
			return fmt.Errorf("sibling pool %d: %v", i+1, err)
		}
	}
	if c.AnswLog != "" && c.AnswLog != answOwn && c.AnswLog != answDefault {
		return fmt.Errorf("answlog is \"\" (disabled), %q or %q", answOwn, answDefault)
	}
	if f := c.AnswFilter; (f != "" && f != "all" && f != "warning" && f != "error") || (f != "" && c.AnswLog == "") {
		return fmt.Errorf("the answlog filter is all, warning or error (\"\" = not named) and needs answlog")
	}
	switch c.Kind {
	case kindHTTP, kindGRPC:
		if c.Plain == nil || c.Plain.Entries < 1 {
			return fmt.Errorf("case of kind %s without ammo description", c.Kind)
		}
		if p := c.Plain; (p.Array && p.Format != "jsonline") || (p.HostHeader && p.Format != "uri" && p.Format != "uripost") ||
			(c.Kind == kindGRPC && (p.DateHeader != "" || p.Preload)) ||
			(p.BodyKiB != 0 && (p.Format == "uri" || p.Format == "grpcjson")) || (p.PadHeader != 0 && p.Format != "raw" && p.Format != "jsonline") {
			return fmt.Errorf("ammo options that format %s does not have", p.Format)
		}
		if p := c.Plain; p.BodyKiB < 0 || p.BodyKiB > 48 || p.PadHeader < 0 || p.PadHeader > 8000 || p.Entries > 26 {
			return fmt.Errorf("bodies of 0..48 KiB, pad headers of 0..8000 bytes and up to 26 entries are defined")
		}
	case kindHTTPScen, kindGRPCScen:
		if c.Scen == nil {
			return fmt.Errorf("case of kind %s without scenario description", c.Kind)
		}
		if c.Scen.Index != "" && c.Scen.Source == "" {
			return fmt.Errorf("row index without a rows source")
		}
		if s := c.Scen; s.FailEvery > 0 {
			steps, kinds := []string{"auth", "use"}, []string{"body", "status", "header", "notjson"}
			if c.Kind == kindGRPCScen {
				steps, kinds = []string{"auth", "list", "order"}, []string{"payload"}
			}
			if !contains(steps, s.FailAt) || !contains(kinds, s.FailKind) {
				return fmt.Errorf("unsatisfying answers at step %q of kind %q are not defined for %s", s.FailAt, s.FailKind, c.Kind)
			}
			if c.Kind == kindHTTPScen && !s.PostJsonpath && (s.FailAt == "use" || s.FailKind == "notjson") {
				return fmt.Errorf("unsatisfying answers at %q / %q need the var/jsonpath postprocessor", s.FailAt, s.FailKind)
			}
		}
	default:
		return fmt.Errorf("unknown kind %q", c.Kind)
	}
	if c.Instances < 1 || c.Shots < 1 {
		return fmt.Errorf("instances and shots must be positive")
	}
	if c.TargetBy != targetByIP && c.TargetBy != targetByName && c.TargetBy != targetByNameLate {
		return fmt.Errorf("the target is named by IP (\"\"), %q or %q", targetByName, targetByNameLate)
	}
	if !c.httpGun() && (c.TargetBy != "" || c.NoKeepAlive || c.CloseEvery != 0) {
		return fmt.Errorf("target naming, disable-keep-alives and dropped connections are generated for the http guns only")
	}
	if c.CloseEvery < 0 {
		return fmt.Errorf("the target closes the connection after every k-th answer, k >= 1 (0 = never)")
	}
	if b := c.Behind; b != nil {
		if err := validateSections(b.Lead, "overdue"); err != nil {
			return err
		}
		for _, s := range b.Lead {
			if s.Type == "unlimited" {
				return fmt.Errorf("overdue sections are counted ones")
			}
		}
		if b.Ms < overdueMs || b.Ms > 20000 || b.leadMs() > b.Ms || b.leadTokens() < 1 || b.leadTokens() >= c.Shots {
			return fmt.Errorf("a schedule started in the past needs 2..20 s, overdue sections that fit in and hold 1..%d tokens", c.Shots-1)
		}
	}
	if c.QueueSize < 0 || (c.QueueSize > 0 && c.Agg != "phout") {
		return fmt.Errorf("sample-queue-size is generated for phout only (a full queue makes Report wait; the jsonlines reporter drops samples by design)")
	}
	if c.StartDelayMs < 0 || c.StartDelayMs > 5000 {
		return fmt.Errorf("the instances start 0..5 s late")
	}
	if b := c.Behind; b != nil && !c.DiscardOverflow && b.leadTokens() > 200 {
		return fmt.Errorf("%d overdue tokens are defined with discard_overflow only (they would all be shot at once)", b.leadTokens())
	}
	if b := c.Behind; b != nil && (b.leadTokens() > 200000 || b.leadTokens()-b.certain() > 200) {
		return fmt.Errorf("up to 200000 overdue tokens, up to 200 of them less than 2 s overdue")
	}
	if len(c.Rps) > 0 {
		if err := validateSections(c.Rps, "rps"); err != nil {
			return err
		}
		if last := c.Rps[len(c.Rps)-1]; len(c.Rps) < 2 || last.Type == "unlimited" || finiteTokens(c.Rps) < c.rest()+5 {
			return fmt.Errorf("rps sections must be >= 2, end with a counted section and hold at least %d tokens (the ammo limit ends the run)", c.rest()+5)
		}
	}
	if st := c.Startup; st != nil {
		switch st.Kind {
		case "composite":
			if err := validateSections(st.Sections, "startup"); err != nil {
				return err
			}
			for _, s := range st.Sections {
				if s.Type == "unlimited" {
					return fmt.Errorf("startup sections are counted ones")
				}
			}
			if len(st.Sections) < 2 || finiteTokens(st.Sections) != c.Instances {
				return fmt.Errorf("startup sections must be >= 2 and hold one token per instance")
			}
		case "instance_step":
			if st.From < 0 || st.Step < 1 || st.StepMs < 1 || st.From >= c.Instances || (c.Instances-st.From)%st.Step != 0 {
				return fmt.Errorf("instance_step startup must reach the number of instances in whole steps")
			}
		default:
			return fmt.Errorf("unknown startup kind %q", st.Kind)
		}
	}
	return nil
}
