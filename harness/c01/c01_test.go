// C01 — RPS schedules realise the configured load profile.
//
// Oracle: closed-form integral of the configured rate, evaluated exactly with
// math/big rationals of the float inputs (shares no code with core/schedule).
package c01

import (
	"fmt"
	"math"
	"math/big"
	"testing"
	"time"

	"verif/harness/internal/pand"
	"verif/harness/internal/vf"

	"github.com/yandex/pandora/core"
	"github.com/yandex/pandora/core/schedule"
	"pgregory.net/rapid"
)

type Case struct {
	Kind      string  `json:"kind"` // const | line | step | once
	From      float64 `json:"from"`
	To        float64 `json:"to"`
	Ops       float64 `json:"ops"`
	Step      int64   `json:"step"`
	Times     int64   `json:"times"`
	DurNs     int64   `json:"dur_ns"`
	StartNs   int64   `json:"start_unix_ns"`
	ViaConfig bool    `json:"via_config"`
}

func genDuration(t *rapid.T) time.Duration {
	switch rapid.IntRange(0, 9).Draw(t, "durKind") {
	case 0, 1, 2:
		return time.Duration(rapid.IntRange(1, 120).Draw(t, "sec")) * time.Second
	case 3, 4:
		// half / tenth seconds: 0.5s 1.5s 2.5s ...
		return time.Duration(rapid.IntRange(1, 300).Draw(t, "ds")) * 100 * time.Millisecond
	case 5, 6:
		return time.Duration(rapid.IntRange(1, 20000).Draw(t, "ms")) * time.Millisecond
	case 7:
		return rapid.SampledFrom([]time.Duration{time.Millisecond, 999 * time.Millisecond, 1001 * time.Millisecond,
			500 * time.Millisecond, 1500 * time.Millisecond, 2*time.Minute + 3500*time.Millisecond,
			2 * time.Millisecond, 1999 * time.Millisecond, 10 * time.Minute}).Draw(t, "special")
	case 8:
		return time.Duration(rapid.Int64Range(1000, 30_000_000).Draw(t, "us")) * time.Microsecond
	default:
		return time.Duration(rapid.Int64Range(1_000_000, 30_000_000_000).Draw(t, "ns"))
	}
}

// genRate draws a rate so that rate*dur is mostly <= maxTok.
func genRate(t *rapid.T, label string, dur time.Duration, maxTok float64) float64 {
	sec := float64(dur) / 1e9
	cap := maxTok / sec
	switch rapid.IntRange(0, 6).Draw(t, label+"Kind") {
	case 0:
		return 0
	case 1, 2:
		hi := int(math.Min(cap, 1000))
		if hi < 1 {
			hi = 1
		}
		return float64(rapid.IntRange(0, hi).Draw(t, label+"Int"))
	case 3:
		hi := int(math.Min(cap*10, 10000))
		if hi < 1 {
			hi = 1
		}
		return float64(rapid.IntRange(0, hi).Draw(t, label+"Tenth")) / 10
	case 4:
		return rapid.Float64Range(0, math.Max(cap, 1e-3)).Draw(t, label+"F")
	case 5:
		// just enough for a handful of tokens whatever the duration
		return float64(rapid.IntRange(1, 40).Draw(t, label+"N")) / sec
	default:
		return rapid.SampledFrom([]float64{0.1, 0.7, 0.5, 1.0 / 3, 2.5, 1e-3, 99.9}).Draw(t, label+"S")
	}
}

func genCase(t *rapid.T) Case {
	c := Case{}
	c.Kind = rapid.SampledFrom([]string{"const", "line", "line", "line", "step", "once"}).Draw(t, "kind")
	c.ViaConfig = rapid.Bool().Draw(t, "viaConfig")
	c.StartNs = rapid.Int64Range(0, 4_000_000_000_000_000_000).Draw(t, "start")
	maxTok := 3000.0
	if rapid.IntRange(0, 49).Draw(t, "big") == 0 {
		maxTok = 300000
	}
	switch c.Kind {
	case "const":
		d := genDuration(t)
		c.DurNs = int64(d)
		c.Ops = genRate(t, "ops", d, maxTok)
	case "line":
		d := genDuration(t)
		c.DurNs = int64(d)
		c.From = genRate(t, "from", d, maxTok)
		c.To = genRate(t, "to", d, maxTok)
	case "step":
		d := genDuration(t)
		c.DurNs = int64(d)
		c.Step = int64(rapid.IntRange(1, 20).Draw(t, "step"))
		levels := rapid.IntRange(0, 6).Draw(t, "levels")
		c.From = genRate(t, "from", d, maxTok/8)
		switch rapid.IntRange(0, 5).Draw(t, "toKind") {
		case 0:
			c.To = genRate(t, "to", d, maxTok/8) // may be below from
			if c.To > c.From+float64(8*c.Step) {
				c.To = c.From + float64(8*c.Step)
			}
		case 1:
			c.To = c.From + float64(int64(levels)*c.Step) + 0.5
		default:
			c.To = c.From + float64(int64(levels)*c.Step)
		}
	case "once":
		c.Times = int64(rapid.IntRange(1, 3000).Draw(t, "times"))
		if !c.ViaConfig && rapid.IntRange(0, 9).Draw(t, "zeroTimes") == 0 {
			c.Times = 0
		}
	}
	return c
}

func fmtDur(ns int64) string { return time.Duration(ns).String() }

func build(c Case) (core.Schedule, error) {
	d := time.Duration(c.DurNs)
	if !c.ViaConfig {
		switch c.Kind {
		case "const":
			return schedule.NewConst(c.Ops, d), nil
		case "line":
			return schedule.NewLine(c.From, c.To, d), nil
		case "step":
			return schedule.NewStep(c.From, c.To, c.Step, d), nil
		case "once":
			return schedule.NewOnce(c.Times), nil
		}
		return nil, fmt.Errorf("bad kind")
	}
	m := map[string]any{"type": c.Kind}
	switch c.Kind {
	case "const":
		m["ops"] = c.Ops
		m["duration"] = fmtDur(c.DurNs)
	case "line":
		m["from"] = c.From
		m["to"] = c.To
		m["duration"] = fmtDur(c.DurNs)
	case "step":
		m["from"] = c.From
		m["to"] = c.To
		m["step"] = c.Step
		m["duration"] = fmtDur(c.DurNs)
	case "once":
		m["times"] = c.Times
	}
	var conf struct {
		S core.Schedule `config:"s"`
	}
	if err := pand.Decode(map[string]any{"s": m}, &conf); err != nil {
		return nil, err
	}
	return conf.S, nil
}

var (
	ratBillion = new(big.Rat).SetInt64(1e9)
)

func rat(f float64) *big.Rat { return new(big.Rat).SetFloat64(f) }

// integral of a line from->to over duration durNs, evaluated at elapsed ns.
// F(t) = from*t + (to-from)*t^2/(2*D), t,D in seconds.
func lineIntegral(from, to float64, durNs, atNs int64) *big.Rat {
	t := new(big.Rat).SetFrac64(atNs, 1e9)
	D := new(big.Rat).SetFrac64(durNs, 1e9)
	a := new(big.Rat).Mul(rat(from), t)
	diff := new(big.Rat).Sub(rat(to), rat(from))
	b := new(big.Rat).Mul(diff, new(big.Rat).Mul(t, t))
	b.Quo(b, new(big.Rat).Mul(big.NewRat(2, 1), D))
	return a.Add(a, b)
}

func rateAt(from, to float64, durNs, atNs int64) float64 {
	return from + (to-from)*float64(atNs)/float64(durNs)
}

func ratFloat(r *big.Rat) float64 { f, _ := r.Float64(); return f }

// allowedCounts returns the set of token counts acceptable for exact integral I.
func allowedCounts(I *big.Rat) (lo, hi int64, nearInt bool) {
	fl := new(big.Int).Div(I.Num(), I.Denom()) // floor for non-negative
	nE := fl.Int64()
	lo, hi = nE, nE
	If := ratFloat(I)
	eps := 1e-9 * math.Max(1, If)
	frac := If - float64(nE)
	if frac <= eps && nE > 0 {
		lo = nE - 1
		nearInt = true
	}
	if frac >= 1-eps {
		hi = nE + 1
		nearInt = true
	}
	return
}

// drain reads a started schedule completely (bounded).
func drain(s core.Schedule, max int) (times []time.Time, finish time.Time, err error) {
	for i := 0; ; i++ {
		if i > max {
			return nil, time.Time{}, fmt.Errorf("more than %d tokens", max)
		}
		left := s.Left()
		tx, ok := s.Next()
		if !ok {
			if left != 0 {
				return nil, time.Time{}, fmt.Errorf("Left()=%d just before Next reported exhaustion (after %d tokens)", left, i)
			}
			return times, tx, nil
		}
		if i == 0 {
			_ = left
		}
		times = append(times, tx)
		if got := s.Left(); got != left-1 {
			return nil, time.Time{}, fmt.Errorf("Left() went %d -> %d across token %d (must drop by one)", left, got, i)
		}
	}
}

// checkSegment verifies tokens (relative ns offsets within a const/line segment).
func checkSegment(from, to float64, durNs int64, offs []int64, what string) error {
	I := lineIntegral(from, to, durNs, durNs)
	lo, hi, _ := allowedCounts(I)
	if from == to && I.IsInt() {
		// constant rate whose integral over the duration is EXACTLY a whole number (55 rps for 1 s, 100 rps for
		// 570 ms): rate x duration has no rounding to hide behind, the profile holds exactly that many operations
		lo, hi = I.Num().Int64(), I.Num().Int64()
	}
	n := int64(len(offs))
	if n < lo || n > hi {
		return fmt.Errorf("%s: %d tokens, integral of the configured rate over the duration is %s (allowed %d..%d)",
			what, n, I.FloatString(6), lo, hi)
	}
	prev := int64(-1)
	for k, off := range offs {
		if off < 0 {
			return fmt.Errorf("%s: token %d scheduled %dns before the profile start", what, k, -off)
		}
		if off > durNs {
			return fmt.Errorf("%s: token %d scheduled at +%dns, after start+duration (%dns)", what, k, off, durNs)
		}
		if off < prev {
			return fmt.Errorf("%s: token %d at +%dns precedes token %d at +%dns", what, k, off, k-1, prev)
		}
		prev = off
		if k == 0 && off != 0 {
			// F(0)=0 reaches 0 at start; with from>0 nothing can delay token 0.
			return fmt.Errorf("%s: token 0 at +%dns, expected at the start instant", what, off)
		}
		// float evaluation: relative error ~1e-16, far below the 1e-9*k tolerance
		ts, Ds := float64(off)/1e9, float64(durNs)/1e9
		F := from*ts + (to-from)*ts*ts/(2*Ds)
		tol := rateAt(from, to, durNs, off)*2e-9 + 1e-9*math.Max(1, float64(k))
		if math.Abs(F-float64(k)) > tol {
			// "earliest instant": when the rate is zero on a prefix (from==0,k==0) F stays 0: handled by tol.
			return fmt.Errorf("%s: token %d at +%dns where the integral of the rate is %.9f (|diff| > %.3g)",
				what, k, off, F, tol)
		}
	}
	return nil
}

func check(c Case, o *vf.Obs) error {
	s, err := build(c)
	if err != nil {
		return fmt.Errorf("valid profile rejected: %v", err)
	}
	start := time.Unix(0, c.StartNs)
	// Left before start.
	left0 := s.Left()
	s.Start(start)
	if l := s.Left(); l != left0 {
		return fmt.Errorf("Left() changed by Start: %d -> %d", left0, l)
	}
	times, finish, err := drain(s, 5_000_000)
	if err != nil {
		return err
	}
	if int(left0) != len(times) {
		return fmt.Errorf("Left() before the first token = %d but %d tokens were handed out", left0, len(times))
	}
	offs := make([]int64, len(times))
	for i, tx := range times {
		offs[i] = tx.Sub(start).Nanoseconds()
	}
	var total int64 // expected total duration
	n := len(times)
	fracDur := c.DurNs%1e9 != 0
	switch c.Kind {
	case "const":
		total = c.DurNs
		if err := checkSegment(c.Ops, c.Ops, c.DurNs, offs, "const"); err != nil {
			return err
		}
		_, _, near := allowedCounts(lineIntegral(c.Ops, c.Ops, c.DurNs, c.DurNs))
		o.ClassIf(near, "integral_near_integer")
		o.ClassIf(c.Ops == 0, "zero_rate")
		if n >= 2 && fracDur {
			o.NonTrivial()
		}
	case "line":
		total = c.DurNs
		if err := checkSegment(c.From, c.To, c.DurNs, offs, "line"); err != nil {
			return err
		}
		_, _, near := allowedCounts(lineIntegral(c.From, c.To, c.DurNs, c.DurNs))
		o.ClassIf(near, "integral_near_integer")
		o.ClassIf(c.From > c.To, "line_decreasing")
		o.ClassIf(c.From < c.To, "line_increasing")
		o.ClassIf(c.From == c.To, "line_flat")
		o.ClassIf(c.From == 0 || c.To == 0, "zero_endpoint")
		if n >= 2 && (fracDur || c.From != c.To || c.From == 0 || c.To == 0) {
			o.NonTrivial()
		}
	case "step":
		// Levels from + j*step <= to, decided in exact arithmetic on the float inputs. Only when
		// from is not an integer (so the code's repeated float addition can differ from the exact
		// sum) a last level within 1e-9 of `to` is accepted either way.
		var levels []float64
		optional := false
		if c.From == c.To {
			levels = []float64{c.From}
		} else {
			fromInt := c.From == math.Trunc(c.From)
			for j := int64(0); ; j++ {
				lv := new(big.Rat).Add(rat(c.From), new(big.Rat).SetInt64(j*c.Step))
				d := ratFloat(new(big.Rat).Sub(lv, rat(c.To)))
				near := !fromInt && math.Abs(d) <= 1e-9*math.Max(1, c.To)
				if d > 0 && !near {
					break
				}
				levels = append(levels, ratFloat(lv))
				if near {
					optional = true
					break
				}
				if len(levels) > 100000 {
					return fmt.Errorf("generator produced too many levels")
				}
			}
		}
		verify := func(levels []float64) error {
			pos := 0
			for j, lv := range levels {
				segStart := int64(j) * c.DurNs
				segEnd := segStart + c.DurNs
				var seg []int64
				for pos < len(offs) && (offs[pos] < segEnd || (j == len(levels)-1)) {
					seg = append(seg, offs[pos]-segStart)
					pos++
				}
				if err := checkSegment(lv, lv, c.DurNs, seg, fmt.Sprintf("step level %d (%g rps)", j, lv)); err != nil {
					return err
				}
			}
			if pos != len(offs) {
				return fmt.Errorf("step: %d tokens beyond the last level (%d levels)", len(offs)-pos, len(levels))
			}
			want := start.Add(time.Duration(int64(len(levels)) * c.DurNs))
			if !finish.Equal(want) {
				return fmt.Errorf("step: exhausted profile reports finish start+%v, expected exactly start+%v (%d levels)",
					finish.Sub(start), want.Sub(start), len(levels))
			}
			return nil
		}
		err := verify(levels)
		if err != nil && optional {
			if err2 := verify(levels[:len(levels)-1]); err2 == nil {
				levels = levels[:len(levels)-1]
				err = nil
			}
		}
		if err != nil {
			return err
		}
		total = int64(len(levels)) * c.DurNs
		o.ClassIf(len(levels) == 0, "step_no_levels")
		o.ClassIf(len(levels) >= 2, "step_multi_level")
		o.ClassIf(optional, "step_level_ambiguous")
		if n >= 2 && (fracDur || len(levels) >= 2) {
			o.NonTrivial()
		}
	case "once":
		total = 0
		if int64(n) != c.Times {
			return fmt.Errorf("once: %d tokens, configured %d", n, c.Times)
		}
		for k, off := range offs {
			if off != 0 {
				return fmt.Errorf("once: token %d at +%dns, must be released at the start instant", k, off)
			}
		}
		if n >= 2 {
			o.NonTrivial()
		}
	}
	o.ClassIf(fracDur && c.Kind != "once", "fractional_duration")
	o.ClassIf(c.ViaConfig, "via_config")
	o.ClassIf(!c.ViaConfig, "via_constructor")
	o.Class("kind_" + c.Kind)
	o.ClassIf(n >= 1000, "tokens_ge_1000")
	o.Note("tokens", n)
	wantFinish := start.Add(time.Duration(total))
	if !finish.Equal(wantFinish) {
		return fmt.Errorf("%s: exhausted profile reports finish start+%v, expected exactly start+%v",
			c.Kind, finish.Sub(start), time.Duration(total))
	}
	for i := 0; i < 3; i++ {
		tx, ok := s.Next()
		if ok || !tx.Equal(wantFinish) {
			return fmt.Errorf("%s: Next after exhaustion returned (%v,%v), expected (start+%v,false)",
				c.Kind, tx.Sub(start), ok, time.Duration(total))
		}
		if l := s.Left(); l != 0 {
			return fmt.Errorf("%s: Left()=%d after exhaustion", c.Kind, l)
		}
	}
	return nil
}

func TestProfile(t *testing.T) {
	pand.Init()
	r := vf.Start(t, "C01")
	vf.Check(r, genCase, check)
}
