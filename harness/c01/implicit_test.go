package c01

// "No operation is scheduled before the profile's start" when the start is implicit: the engine never calls
// Start on an RPS schedule, the first Next of whichever instance comes first does. 2-8 goroutines race for it.

import (
	"fmt"
	"testing"

	sg "verif/harness/internal/schedgen"
	"verif/harness/internal/schedrace"
	"verif/harness/internal/vf"

	"github.com/yandex/pandora/core"
	"pgregory.net/rapid"
)

type ImplicitCase struct {
	Leaf    sg.Node `json:"profile"`
	Callers int     `json:"callers"`
	Rounds  int     `json:"rounds"`
}

var leafOpts = sg.Opts{MaxDepth: 1, MaxChildren: 1, MaxLeafTok: 40, MinDur: 1_000_000, MaxDur: 20_000_000_000}

func genImplicit(t *rapid.T) ImplicitCase {
	return ImplicitCase{Leaf: sg.GenLeaf(t, leafOpts), Callers: rapid.IntRange(2, 8).Draw(t, "callers"), Rounds: 48}
}

func checkImplicit(c ImplicitCase, o *vf.Obs) error {
	leaves := sg.Flatten(c.Leaf)
	total := 0
	for r := 0; r < c.Rounds; r++ {
		n, err := schedrace.Round(func() (core.Schedule, error) { return sg.Build(c.Leaf), nil }, leaves, c.Callers)
		if err != nil {
			return fmt.Errorf("round %d: %w", r, err)
		}
		total = n
	}
	if len(leaves) == 1 {
		o.Class("kind_" + leaves[0].Kind)
	}
	o.ClassIf(c.Callers >= 4, "callers_ge_4")
	if total >= 2 {
		o.NonTrivial()
	}
	return nil
}

func TestImplicitStartRace(t *testing.T) {
	r := vf.Start(t, "C01")
	vf.Check(r, genImplicit, checkImplicit)
}
