package c01

// TestHugeProfile: const / line / step profiles that hold 5-30 million operations (20000 rps for 8 min, 1e6 rps for
// 10-30 s), drained completely. TestProfile stops at 300000 tokens and keeps every instant; here nothing is stored:
// each token is judged as it is drawn, by the same rules as checkSegment (inside [start, start+duration], never before
// its predecessor, |F(t_k) - k| within rate x 2 ns + 1e-9 x k where F is the integral of the configured rate), the count
// against the exact integral at the end, Left() every 4096 tokens. What only shows at large k - an intermediate product
// that leaves the 64-bit range, a float that runs out of integer precision - shows here.

import (
	"fmt"
	"math"
	"testing"
	"time"

	"verif/harness/internal/pand"
	"verif/harness/internal/vf"

	"github.com/yandex/pandora/core"
	"pgregory.net/rapid"
)

func genHuge(t *rapid.T) Case {
	c := Case{}
	c.Kind = rapid.SampledFrom([]string{"const", "const", "line", "step"}).Draw(t, "kind")
	c.ViaConfig = rapid.Bool().Draw(t, "viaConfig")
	c.StartNs = rapid.Int64Range(0, 4_000_000_000_000_000_000).Draw(t, "start")
	// (sizes from a list and a jitter: the first cases of a rapid run draw small numbers, and a quick shard runs two cases)
	n := float64(rapid.SampledFrom([]int64{9_500_000, 12_000_000, 16_000_000, 24_000_000, 30_000_000, 10_000_000, 6_000_000}).Draw(t, "tokens") +
		rapid.Int64Range(0, 400_000).Draw(t, "tokensJitter"))
	var ops float64
	switch rapid.IntRange(0, 3).Draw(t, "rateKind") {
	case 0: // round rates as users write them
		ops = rapid.SampledFrom([]float64{10000, 12500, 20000, 50000, 100000, 250000, 1e6, 2e6}).Draw(t, "roundOps")
	case 1:
		ops = float64(rapid.Int64Range(10_000, 2_000_000).Draw(t, "intOps"))
	case 2: // up to three decimals
		ops = float64(rapid.Int64Range(10_000_000, 2_000_000_000).Draw(t, "milliOps")) / 1000
	default:
		ops = rapid.Float64Range(10_000, 2_000_000).Draw(t, "floatOps")
	}
	dur := int64(n / ops * 1e9)
	dur -= dur % 1_000_000
	if dur < 1_000_000 {
		dur = 1_000_000
	}
	switch c.Kind {
	case "const":
		c.Ops, c.DurNs = ops, dur
	case "line":
		// mean rate = ops: from and to on either side of it (or equal: a flat line)
		spread := rapid.SampledFrom([]float64{0, 0.1, 0.5, 1}).Draw(t, "lineSpread")
		c.From, c.To = ops*(1-spread), ops*(1+spread)
		if rapid.Bool().Draw(t, "falling") {
			c.From, c.To = c.To, c.From
		}
		c.DurNs = dur
	case "step":
		// two levels of half the operations each
		c.From = math.Floor(ops)
		c.Step = int64(rapid.IntRange(1, 20).Draw(t, "step"))
		c.To = c.From + float64(c.Step)
		c.DurNs = dur/2 - (dur/2)%1_000_000
		if c.DurNs < 1_000_000 {
			c.DurNs = 1_000_000
		}
	}
	return c
}

// streamSegment draws the tokens of one const/line segment that starts at segStart, judging each as it comes; it
// stops at the first token that lies after the segment's end (returned as carry) or at exhaustion.
func streamSegment(s core.Schedule, from, to float64, durNs int64, segStart time.Time, carry *time.Time, what string) (n int64, finish time.Time, exhausted bool, err error) {
	I := lineIntegral(from, to, durNs, durNs)
	lo, hi, _ := allowedCounts(I)
	if from == to && I.IsInt() {
		lo, hi = I.Num().Int64(), I.Num().Int64()
	}
	Ds := float64(durNs) / 1e9
	prev := int64(-1)
	for {
		var tx time.Time
		if carry != nil && !carry.IsZero() {
			tx, *carry = *carry, time.Time{}
		} else {
			if n%4096 == 0 {
				_ = s.Left() // (a finite profile: must not panic or block; its value is judged by TestProfile)
			}
			var ok bool
			tx, ok = s.Next()
			if !ok {
				finish, exhausted = tx, true
				break
			}
		}
		off := tx.Sub(segStart).Nanoseconds()
		if off > durNs || (n >= hi && off == durNs) {
			// belongs to the next segment (step profiles); the caller decides whether there is one
			if carry != nil {
				*carry = tx
				break
			}
			return n, finish, false, fmt.Errorf("%s: token %d scheduled at +%dns, after start+duration (%dns)", what, n, off, durNs)
		}
		if off < 0 {
			return n, finish, false, fmt.Errorf("%s: token %d scheduled %dns before the profile start", what, n, -off)
		}
		if off < prev {
			return n, finish, false, fmt.Errorf("%s: token %d at +%dns precedes token %d at +%dns", what, n, off, n-1, prev)
		}
		prev = off
		ts := float64(off) / 1e9
		F := from*ts + (to-from)*ts*ts/(2*Ds)
		tol := rateAt(from, to, durNs, off)*2e-9 + 1e-9*math.Max(1, float64(n))
		if math.Abs(F-float64(n)) > tol {
			return n, finish, false, fmt.Errorf("%s: token %d at +%dns where the integral of the rate is %.9f (|diff| > %.3g)", what, n, off, F, tol)
		}
		n++
		if n > hi+2 {
			return n, finish, false, fmt.Errorf("%s: more than %d tokens, integral of the configured rate over the duration is %s", what, hi, I.FloatString(6))
		}
	}
	if n < lo || n > hi {
		return n, finish, exhausted, fmt.Errorf("%s: %d tokens, integral of the configured rate over the duration is %s (allowed %d..%d)", what, n, I.FloatString(6), lo, hi)
	}
	return n, finish, exhausted, nil
}

func checkHuge(c Case, o *vf.Obs) error {
	s, err := build(c)
	if err != nil {
		return err
	}
	start := time.Unix(0, c.StartNs)
	s.Start(start)
	var total int64
	var tokens int64
	var finish time.Time
	switch c.Kind {
	case "const":
		var ex bool
		tokens, finish, ex, err = streamSegment(s, c.Ops, c.Ops, c.DurNs, start, nil, "const")
		if err == nil && !ex {
			err = fmt.Errorf("const: not exhausted")
		}
		total = c.DurNs
	case "line":
		var ex bool
		tokens, finish, ex, err = streamSegment(s, c.From, c.To, c.DurNs, start, nil, "line")
		if err == nil && !ex {
			err = fmt.Errorf("line: not exhausted")
		}
		total = c.DurNs
	case "step":
		var carry time.Time
		level := 0
		for r := c.From; r <= c.To; r += float64(c.Step) {
			var n int64
			var ex bool
			n, finish, ex, err = streamSegment(s, r, r, c.DurNs, start.Add(time.Duration(int64(level)*c.DurNs)), &carry, fmt.Sprintf("step level %d (%g rps)", level, r))
			if err != nil {
				break
			}
			tokens += n
			level++
			if ex != (r+float64(c.Step) > c.To) {
				err = fmt.Errorf("step: level %d of 2: exhausted=%v", level, ex)
				break
			}
		}
		total = int64(level) * c.DurNs
	}
	if err != nil {
		return err
	}
	if want := start.Add(time.Duration(total)); !finish.Equal(want) {
		return fmt.Errorf("%s: exhausted profile reports finish start+%v, expected exactly start+%v", c.Kind, finish.Sub(start), time.Duration(total))
	}
	if l := s.Left(); l != 0 {
		return fmt.Errorf("%s: Left()=%d after exhaustion", c.Kind, l)
	}
	o.NonTrivial()
	o.Class("kind_" + c.Kind)
	o.ClassIf(tokens > 9_300_000, "tokens_gt_9300000")
	o.ClassIf(tokens > 20_000_000, "tokens_gt_20000000")
	o.ClassIf(c.ViaConfig, "via_config")
	o.Note("tokens", int(tokens))
	return nil
}

func TestHugeProfile(t *testing.T) {
	pand.Init()
	r := vf.Start(t, "C01")
	vf.Check(r, genHuge, checkHuge)
}
