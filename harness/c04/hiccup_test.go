// C04, dense profiles x a hiccup of the target: "with discard_overflow enabled ... the length of a run stays bounded by
// the profile duration plus response time however slow the target is" (docs/eng/best_practices/discard-overflow.md:
// requests that are 2 s or more overdue are not sent but reported as discarded, so that the test keeps to its
// timetable) for targets that normally answer at once and are shot at with THOUSANDS of requests per second per
// instance. One response of 2.1-2.8 s then puts an instance many thousands of tokens behind; the bound only holds if
// skipping an overdue token costs next to nothing - whatever a skipped token costs is multiplied by the number of
// tokens the rest of the profile holds. The oracle is the one of TestTiming (check): run length, every token fired
// or reported as discarded, and the per-token clauses.
package c04

import (
	"testing"
	"time"

	sg "verif/harness/internal/schedgen"
	"verif/harness/internal/vf"

	"pgregory.net/rapid"
)

// genHiccup: a steady / ramp / step profile of 2-4 s at 1500-6000 requests per second PER INSTANCE (1-4 instances,
// one shared schedule at instances x that rate or one schedule each), discard_overflow on, every response instant
// except one (one case in three: two) per gun that takes 2.1-2.8 s: the shot number of the slow response is drawn as
// an instant of the profile (0.1-1.2 s after the start; the second one 0.05-0.5 s of shooting after the first has
// returned) times the rate per instance. All guns follow the same plan, so with a shared schedule the instances stall
// within milliseconds of each other (the others take over the stalled one's share and reach their own slow shot
// sooner) and every instance comes back >= 2 s behind.
func genHiccup(t *rapid.T) Case {
	c := Case{Hiccup: true, Discard: true}
	c.Instances = rapid.IntRange(1, 4).Draw(t, "instances")
	c.PerInstance = c.Instances > 1 && rapid.IntRange(0, 2).Draw(t, "perInstance") == 0
	perInst := rapid.SampledFrom([]int{6000, 4000, 2500, 1500, 3000, 5000}).Draw(t, "ratePerInstance")
	// (the recording doubles cost about 40 us of CPU per token: at most 48000 tokens per case)
	var durs []int
	for _, ms := range []int{4000, 3500, 3000, 2500, 2000} {
		if c.Instances*perInst*ms/1000 <= 48000 {
			durs = append(durs, ms)
		}
	}
	durMs := rapid.SampledFrom(durs).Draw(t, "durMs")
	d := int64(durMs) * int64(time.Millisecond)
	total := perInst
	if !c.PerInstance {
		total = perInst * c.Instances
	}
	rate := float64(total)
	switch rapid.IntRange(0, 3).Draw(t, "shape") {
	case 0:
		c.Profile = sg.Node{Kind: "line", From: rate * 0.7, To: rate * 1.3, DurNs: d}
	case 1:
		// 2-4 levels around the rate: from 0.7 x rate upwards in equal increments to 1.3 x rate
		levels := rapid.IntRange(2, 4).Draw(t, "levels")
		from := int64(total) * 7 / 10
		step := int64(total) * 6 / 10 / int64(levels-1)
		c.Profile = sg.Node{Kind: "step", From: float64(from), To: float64(from + int64(levels-1)*step), Step: step, DurNs: d / int64(levels)}
	default:
		c.Profile = sg.Node{Kind: "const", From: rate, DurNs: d}
	}
	atMs := rapid.SampledFrom([]int{100, 300, 500, 800, 1200}).Draw(t, "hiccupAtMs")
	at := perInst * atMs / 1000
	c.HiccupAtShot = []int{at}
	c.HiccupMs = []int{rapid.SampledFrom([]int{2100, 2300, 2500, 2800}).Draw(t, "hiccupMs")}
	if rapid.IntRange(0, 2).Draw(t, "second") == 0 {
		afterMs := rapid.SampledFrom([]int{50, 150, 500}).Draw(t, "secondAfterMs")
		c.HiccupAtShot = append(c.HiccupAtShot, at+1+perInst*afterMs/1000)
		c.HiccupMs = append(c.HiccupMs, rapid.SampledFrom([]int{2100, 2300, 2500, 2800}).Draw(t, "hiccup2Ms"))
	}
	return c
}

// hiccupPlan: the response times (microseconds) of one gun by shot number: 0 everywhere, HiccupMs[i] at shot
// HiccupAtShot[i]. The plan of the fake guns is cyclic, so it is made longer than the number of tokens of the run.
func hiccupPlan(c Case, tokens int) (us []int, slowest time.Duration) {
	n := tokens + 1
	for _, k := range c.HiccupAtShot {
		n = max(n, k+1)
	}
	us = make([]int, n)
	for i, k := range c.HiccupAtShot {
		if i < len(c.HiccupMs) && k >= 0 {
			us[k] = c.HiccupMs[i] * 1000
			slowest = max(slowest, time.Duration(c.HiccupMs[i])*time.Millisecond)
		}
	}
	return us, slowest
}

// starveProbe measures how busy the machine is while a dense case runs: a goroutine of this process sleeps 2 ms over
// and over; the share of those sleeps that were woken more than 5 ms late. (vf.LoadProbe keeps the single worst
// wake-up, which is > 5 ms in most runs of 10 s next to busy instances; a starved process is late all the time.)
type starveProbe struct {
	stop, done chan struct{}
	n, late    int
}

func startStarveProbe() *starveProbe {
	p := &starveProbe{stop: make(chan struct{}), done: make(chan struct{})}
	go func() {
		defer close(p.done)
		for {
			select {
			case <-p.stop:
				return
			default:
			}
			t0 := time.Now()
			time.Sleep(2 * time.Millisecond)
			p.n++
			if time.Since(t0) > 7*time.Millisecond {
				p.late++
			}
		}
	}()
	return p
}

// Stop ends the probe and returns the share of late wake-ups.
func (p *starveProbe) Stop() float64 {
	close(p.stop)
	<-p.done
	if p.n == 0 {
		return 1
	}
	return float64(p.late) / float64(p.n)
}

// TestDenseHiccup: the run-length clause where it is hardest to keep: thousands of tokens per second per instance and
// a target that stops answering for 2.1-2.8 s once or twice. Cases last 4-7 s; only three of them run concurrently in
// a process (the recording doubles identify the instance by runtime.Stack, which serialises the goroutines of a
// process: tens of thousands of tokens per second per process is what they can take), the driver runs more processes.
func TestDenseHiccup(t *testing.T) {
	r := vf.Start(t, "C04")
	vf.Batch(r, r.Pick(3, 24), 3, genHiccup, check)
}
