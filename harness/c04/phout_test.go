// C04, what the user reads: "... is not fired but reported as a discarded sample (net code 777, tag
// 'discarded')". TestTiming observes the samples at a recording aggregator that keeps what it is
// handed. The stock aggregator (phout) writes a sample some time after Report returned and then
// hands it back to netsample's pool, from which every stock gun takes the sample of its next
// request: what ends up in the file also depends on who owns a sample after it has been reported.
// Here the real engine runs against the REAL phout aggregator (on the in-memory fs) and guns that
// report like the stock ones (netsample.Acquire, SetProtoCode, Report), over response-time
// histories that make every instance alternate between discarding and firing. The oracle reads the
// file: every token that was not fired = one line with tag 'discarded' and net code 777, every
// fired one = one line with the tag, id and codes its gun gave it, and nothing else.
package c04

import (
	"context"
	"fmt"
	"sort"
	"strconv"
	"strings"
	"sync"
	"testing"
	"time"

	"verif/harness/internal/fake"
	"verif/harness/internal/pand"
	sg "verif/harness/internal/schedgen"
	"verif/harness/internal/vf"

	"github.com/spf13/afero"
	"github.com/yandex/pandora/core"
	"github.com/yandex/pandora/core/aggregator/netsample"
	"github.com/yandex/pandora/core/engine"
	"github.com/yandex/pandora/core/schedule"
	"pgregory.net/rapid"
)

type PhoutCase struct {
	Profile     sg.Node `json:"profile"`
	Instances   int     `json:"instances"`
	PerInstance bool    `json:"rps_per_instance"`
	Discard     bool    `json:"discard_overflow"`
	// response time of the n-th shot of the i-th instance's gun (i from 0) = ShotMs[(n + i*PhaseStep) % len]
	ShotMs    []int `json:"response_ms"`
	PhaseStep int   `json:"response_phase_step_per_instance"`
	IDs    bool  `json:"phout_ids"`
	Queue  int   `json:"sample_queue_size"`
}

// genPhoutCase: a steady (const / line, optionally two chained) profile of 8-80 tokens per second for 4.5-6.5 s and a
// cyclic response history "one stall of 2.1-3 s, then 2-30 fast responses": after a stall the tokens that are 2 s or
// more behind are discarded, the ones less than 2 s behind are fired in a burst, then the next stall comes.
func genPhoutCase(t *rapid.T) PhoutCase {
	c := PhoutCase{}
	c.Instances = rapid.IntRange(1, 3).Draw(t, "instances")
	c.PerInstance = c.Instances > 1 && rapid.IntRange(0, 3).Draw(t, "perInstance") == 0
	c.Discard = rapid.IntRange(0, 5).Draw(t, "discard") != 0
	c.IDs = rapid.Bool().Draw(t, "ids")
	c.Queue = rapid.SampledFrom([]int{8, 1024, 262144}).Draw(t, "queue")
	// instances that share a schedule fall behind only while all of them are stalled: mostly the same phase
	c.PhaseStep = rapid.SampledFrom([]int{0, 0, 0, 3}).Draw(t, "phaseStep")
	leaf := func(label string, durMs int) sg.Node {
		rate := float64(rapid.SampledFrom([]int{8, 15, 25, 40, 80}).Draw(t, label+"rate"))
		d := int64(durMs) * int64(time.Millisecond)
		if rapid.IntRange(0, 2).Draw(t, label+"line") == 0 {
			return sg.Node{Kind: "line", From: rate * 0.5, To: rate * 1.5, DurNs: d}
		}
		return sg.Node{Kind: "const", From: rate, DurNs: d}
	}
	fast := rapid.SampledFrom([]int{0, 0, 0, 1, 5, 20})
	if !c.Discard {
		// nothing is discarded: every stall postpones the end of the run, so few tokens and stalls far apart
		c.Profile = sg.Node{Kind: "const", From: float64(rapid.SampledFrom([]int{5, 10, 20}).Draw(t, "rate")), DurNs: int64(2 * time.Second)}
		c.ShotMs = append([]int{rapid.SampledFrom([]int{2100, 2600}).Draw(t, "stall")}, rapid.SliceOfN(fast, 25, 40).Draw(t, "fast")...)
		return c
	}
	total := rapid.IntRange(4500, 6500).Draw(t, "durMs")
	if rapid.IntRange(0, 2).Draw(t, "composite") == 0 {
		first := rapid.IntRange(1000, total-1000).Draw(t, "firstMs")
		c.Profile = sg.Node{Kind: "composite", Children: []sg.Node{leaf("a", first), leaf("b", total-first)}}
	} else {
		c.Profile = leaf("s", total)
	}
	stall := rapid.SampledFrom([]int{2100, 2300, 2600, 3000}).Draw(t, "stall")
	c.ShotMs = append([]int{stall}, rapid.SliceOfN(fast, 2, 30).Draw(t, "fast")...)
	return c
}

type phShot struct {
	tag   string
	id    uint64
	proto int
	g     int64
	enter time.Time
}

type phWorld struct {
	c     PhoutCase
	mu    sync.Mutex
	guns  int
	shots []phShot
}

// phGun reports the way the stock guns do: a sample from netsample's pool taken at the start of the request, codes
// set when the answer is there, one Report.
type phGun struct {
	w    *phWorld
	idx  int
	n    int
	aggr netsample.Aggregator
}

func (w *phWorld) newGun() (core.Gun, error) {
	w.mu.Lock()
	defer w.mu.Unlock()
	g := &phGun{w: w, idx: w.guns}
	w.guns++
	return g, nil
}

func (g *phGun) Bind(aggr core.Aggregator, _ core.GunDeps) error {
	g.aggr = netsample.UnwrapAggregator(aggr)
	return nil
}

var phProto = []int{200, 201, 302, 404, 500, 503}

func (g *phGun) Shoot(core.Ammo) {
	rec := phShot{
		tag: fmt.Sprintf("g%d_%d", g.idx, g.n), id: uint64(g.idx)*1_000_000 + uint64(g.n) + 1,
		proto: phProto[(g.n+g.idx)%len(phProto)], g: vf.GoID(), enter: time.Now(),
	}
	s := netsample.Acquire(rec.tag)
	s.SetID(rec.id)
	ms := g.w.c.ShotMs[(g.n+max(0, g.idx-1)*g.w.c.PhaseStep)%len(g.w.c.ShotMs)] // gun 0 is the pool's warm-up probe
	g.n++
	if ms > 0 {
		time.Sleep(time.Duration(ms) * time.Millisecond)
	}
	s.SetProtoCode(rec.proto)
	g.w.mu.Lock()
	g.w.shots = append(g.w.shots, rec)
	g.w.mu.Unlock()
	g.aggr.Report(s)
}

func checkPhout(c PhoutCase, o *vf.Obs) error {
	if len(c.ShotMs) == 0 || c.Instances < 1 || c.PhaseStep < 0 {
		return fmt.Errorf("harness: bad case")
	}
	leaves := sg.Flatten(c.Profile)
	_, fin, T, err := sg.Chain(leaves, time.Unix(1, 0))
	if err != nil {
		return err
	}
	profDur := fin.Sub(time.Unix(1, 0))
	tokens := T
	if c.PerInstance {
		tokens = T * c.Instances
	}
	maxResp, stalls := time.Duration(0), 0
	for _, ms := range c.ShotMs {
		maxResp = max(maxResp, time.Duration(ms)*time.Millisecond)
		if ms >= 2000 {
			stalls++
		}
	}
	name := pand.TempName("c04-phout", ".log")
	defer pand.Remove(name)
	conf := netsample.DefaultPhoutConfig()
	conf.Destination = name
	conf.ID = c.IDs
	conf.SampleQueueSize = c.Queue
	ph, err := netsample.NewPhout(pand.FS(), conf)
	if err != nil {
		return fmt.Errorf("harness: NewPhout: %v", err)
	}
	w := &phWorld{c: c}
	prov := fake.NewProvider(fake.ProviderPlan{Total: -1, Queue: 4, AfterLast: "wait_ctx"})
	var mu sync.Mutex
	var scheds []*fake.Sched
	newSched := func() (core.Schedule, error) {
		s := fake.WrapSched(sg.Build(c.Profile))
		mu.Lock()
		scheds = append(scheds, s)
		mu.Unlock()
		return s, nil
	}
	econf := engine.Config{Pools: []engine.InstancePoolConfig{{
		ID: "p", Provider: prov, Aggregator: netsample.WrapAggregator(ph), NewGun: w.newGun,
		RPSPerInstance: c.PerInstance, NewRPSSchedule: newSched,
		StartupSchedule: schedule.NewOnce(int64(c.Instances)), DiscardOverflow: c.Discard,
	}}}
	eng := engine.New(pand.NopLog(), pand.Metrics(), econf)
	ctx, cancel := context.WithCancel(context.Background())
	defer cancel()
	var bound time.Duration
	if c.Discard {
		bound = profDur + window + maxResp + 3*time.Second
	} else {
		n := (tokens+len(c.ShotMs)-1)/len(c.ShotMs)*stalls + c.Instances
		bound = profDur + time.Duration(n)*maxResp + time.Duration(tokens)*20*time.Millisecond + 5*time.Second
	}
	t0 := time.Now()
	var runErr error
	var sink vf.ErrSink
	var wg sync.WaitGroup
	done := make(chan struct{})
	vf.GoErr(&wg, &sink, func() {
		defer close(done)
		runErr = eng.Run(ctx)
		eng.Wait() // the aggregator has returned: the file is flushed and closed
	})
	select {
	case <-done:
	case <-time.After(bound):
		cancel()
		<-done
		if e := sink.Get(); e != nil {
			return e
		}
		if c.Discard {
			return fmt.Errorf("run still going after %v: profile lasts %v, slowest response %v, discard_overflow on — run length must stay within profile + 2s + response time",
				time.Since(t0), profDur, maxResp)
		}
		return fmt.Errorf("run still going after %v (profile %v, %d tokens, slowest response %v)", time.Since(t0), profDur, tokens, maxResp)
	}
	wg.Wait()
	if e := sink.Get(); e != nil {
		return e
	}
	if runErr != nil {
		return fmt.Errorf("Engine.Run: %v", runErr)
	}

	// ---- what happened: tokens handed out and shots, per instance goroutine ----
	type pev struct {
		at   time.Time
		shot bool
	}
	byG := map[int64][]pev{}
	nexts := 0
	for _, s := range scheds {
		for _, r := range s.Log() {
			if r.OK {
				byG[r.G] = append(byG[r.G], pev{at: r.After})
				nexts++
			}
		}
	}
	w.mu.Lock()
	shots := append([]phShot(nil), w.shots...)
	w.mu.Unlock()
	for _, sh := range shots {
		byG[sh.g] = append(byG[sh.g], pev{at: sh.enter, shot: true})
	}
	if nexts != tokens {
		return fmt.Errorf("%d tokens were handed out, the profile holds %d", nexts, tokens)
	}
	notFired := tokens - len(shots)
	if notFired < 0 {
		return fmt.Errorf("%d shots for %d tokens", len(shots), tokens)
	}
	// per instance: the sequence of outcomes (d = token not fired, s = fired)
	dsd := 0
	for g, evs := range byG {
		sort.SliceStable(evs, func(i, j int) bool { return evs[i].at.Before(evs[j].at) })
		var seq []byte
		for i := 0; i < len(evs); i++ {
			if evs[i].shot {
				return fmt.Errorf("harness: goroutine %d has a shot without a preceding token", g)
			}
			if i+1 < len(evs) && evs[i+1].shot {
				seq = append(seq, 's')
				i++
			} else {
				seq = append(seq, 'd')
			}
		}
		// runs of d separated by at least one s
		runs, inD, sawS := 0, false, false
		for _, b := range seq {
			switch {
			case b == 'd' && !inD:
				if runs == 0 || sawS {
					runs++
				}
				inD, sawS = true, false
			case b == 's':
				inD, sawS = false, true
			}
		}
		if runs >= 2 {
			dsd += runs - 1
		}
	}
	if !c.Discard && notFired > 0 {
		return fmt.Errorf("%d of %d tokens were not fired although discard_overflow is off", notFired, tokens)
	}

	// ---- what the user reads ----
	data, err := afero.ReadFile(pand.FS(), name)
	if err != nil {
		return fmt.Errorf("harness: reading back %s: %v", name, err)
	}
	want := make(map[string]phShot, len(shots))
	for _, sh := range shots {
		want[sh.tag] = sh
	}
	seen := make(map[string]int, len(shots))
	text := strings.TrimSuffix(string(data), "\n")
	var lines []string
	if text != "" {
		lines = strings.Split(text, "\n")
	}
	discLines := 0
	var bad []string
	note := func(f string, a ...any) {
		if len(bad) < 4 {
			bad = append(bad, fmt.Sprintf(f, a...))
		}
	}
	for i, ln := range lines {
		// time, tag[#id], rtt, connect, send, latency, receive, interval_event, request bytes, response bytes, net code, proto code
		cols := strings.Split(ln, "\t")
		if len(cols) != 12 {
			return fmt.Errorf("phout line %d has %d tab-separated columns, not 12: %q", i+1, len(cols), ln)
		}
		tag, id := cols[1], uint64(0)
		if c.IDs {
			k := strings.LastIndexByte(tag, '#')
			if k < 0 {
				return fmt.Errorf("phout line %d: ids are switched on but the tag column %q has no #id: %q", i+1, tag, ln)
			}
			if id, err = strconv.ParseUint(tag[k+1:], 10, 64); err != nil {
				return fmt.Errorf("phout line %d: id in %q is not a number: %q", i+1, tag, ln)
			}
			tag = tag[:k]
		}
		netCode, e1 := strconv.Atoi(cols[10])
		proto, e2 := strconv.Atoi(cols[11])
		if e1 != nil || e2 != nil {
			return fmt.Errorf("phout line %d: net / proto code columns are not numbers: %q", i+1, ln)
		}
		switch {
		case tag == netsample.DiscardedShootTag && netCode == netsample.DiscardedShootCodeError:
			discLines++
		case tag == netsample.DiscardedShootTag:
			note("line %d has tag 'discarded' but net code %d, not 777: %q", i+1, netCode, ln)
		case netCode == netsample.DiscardedShootCodeError:
			note("line %d has net code 777 but tag %q, not 'discarded': %q", i+1, tag, ln)
		default:
			sh, ok := want[tag]
			if !ok {
				note("line %d matches no request fired in this run: %q", i+1, ln)
				continue
			}
			seen[tag]++
			if seen[tag] > 1 {
				note("the request tagged %q was fired once but has %d lines, line %d: %q", tag, seen[tag], i+1, ln)
				continue
			}
			if netCode != 0 || proto != sh.proto || (c.IDs && id != sh.id) {
				note("line %d: the request tagged %q was reported with id %d, net code 0, proto code %d: %q", i+1, tag, sh.id, sh.proto, ln)
			}
		}
	}
	summary := fmt.Sprintf("%d tokens, %d fired, %d not fired; phout: %d lines, %d of them with tag 'discarded' and net code 777, %d distinct fired requests",
		tokens, len(shots), notFired, len(lines), discLines, len(seen))
	if len(bad) > 0 {
		return fmt.Errorf("%s — %s", summary, strings.Join(bad, "; "))
	}
	if discLines != notFired {
		return fmt.Errorf("%d tokens were not fired, but %d lines of phout report a discarded sample (net code 777, tag 'discarded') — %s", notFired, discLines, summary)
	}
	if len(seen) != len(shots) {
		miss := ""
		for _, sh := range shots {
			if seen[sh.tag] == 0 {
				miss = sh.tag
				break
			}
		}
		return fmt.Errorf("%d requests were fired, but only %d of them have a line in phout (e.g. none for %q) — %s", len(shots), len(seen), miss, summary)
	}
	if len(lines) != tokens {
		return fmt.Errorf("harness: line count does not add up — %s", summary)
	}

	o.ClassIf(c.Discard, "phout_discard_on")
	o.ClassIf(!c.Discard, "phout_discard_off")
	o.ClassIf(notFired > 0, "phout_discarded_lines_seen")
	o.ClassIf(dsd > 0, "phout_discard_then_shot_then_discard_on_one_instance")
	o.ClassIf(dsd >= 2, "phout_three_discard_bursts_on_one_instance")
	o.ClassIf(c.Instances > 1, "phout_instances_gt_1")
	o.ClassIf(c.IDs, "phout_ids_on")
	o.ClassIf(c.Queue <= 8, "phout_small_sample_queue")
	if dsd > 0 || (!c.Discard && len(shots) > 0) {
		o.NonTrivial()
	}
	o.Note("tokens", tokens)
	o.Note("fired", len(shots))
	o.Note("discarded", notFired)
	o.Note("discard_shot_discard", dsd)
	o.Note("run_s", time.Since(t0).Seconds())
	return nil
}

// TestDiscardedInPhout: discarded tokens as the user reads them — through the real phout aggregator, which recycles
// reported samples into the pool the guns take theirs from.
func TestDiscardedInPhout(t *testing.T) {
	r := vf.Start(t, "C04")
	vf.Batch(r, r.Pick(32, 320), 32, genPhoutCase, checkPhout)
}
