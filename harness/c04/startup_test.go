package c04

import (
	"testing"
	"time"

	sg "verif/harness/internal/schedgen"
	"verif/harness/internal/vf"

	"pgregory.net/rapid"
)

// genStartup: the instances of a pool do not all start with the run. The `startup` schedule is drawn (instance_step,
// a steady rate, a ramp, or bursts separated by a pause: later instances start 2.3-3.6 s after the ones before them),
// the rps schedule is shared and steady (3-10 requests per second for 4.5-5.5 s) and the first response of every gun
// is slow - in three cases out of four slower than the distance between two instance starts - so that a newcomer
// asks for its first request while every earlier instance sits in a response and the profile is seconds behind:
// the very first request an instance picks up is overdue (on both sides of 2 s). One case in four instead (or, one
// in eight, as well) gets its rps schedule already started 0.5-4 s in the past (Schedule.Start before the pool sees
// it), with shared or per-instance schedules: the first request of the first instance is overdue too.
// One case in six runs with discard_overflow off (2-4 requests).
func genStartup(t *rapid.T) Case {
	c := Case{}
	c.Discard = rapid.IntRange(0, 5).Draw(t, "discard") != 0
	d := int64(rapid.IntRange(4500, 5500).Draw(t, "durMs")) * int64(time.Millisecond)
	var rate float64
	if c.Discard {
		rate = float64(rapid.SampledFrom([]int{3, 4, 6, 8, 10}).Draw(t, "rate"))
	} else {
		// nothing is discarded, so every token costs its response time: keep the total bounded
		rate = (float64(rapid.IntRange(2, 4).Draw(t, "tok")) + 0.25) / (float64(d) / 1e9)
	}
	if rapid.IntRange(0, 2).Draw(t, "line") == 0 {
		c.Profile = sg.Node{Kind: "line", From: rate * 0.7, To: rate * 1.3, DurNs: d}
	} else {
		c.Profile = sg.Node{Kind: "const", From: rate, DurNs: d}
	}
	mode := rapid.IntRange(0, 7).Draw(t, "mode") // 0,1: pre-started schedule only; 2: both; else gradual startup only
	if mode <= 2 {
		c.PreStartMs = rapid.SampledFrom([]int{500, 1500, 1900, 2100, 2500, 3000, 4000}).Draw(t, "preStartMs")
	}
	if mode <= 1 {
		c.Instances = rapid.IntRange(1, 3).Draw(t, "instances")
		c.PerInstance = c.Instances > 1 && rapid.Bool().Draw(t, "perInstance")
		c.ShotMs = rapid.SliceOfN(rapid.SampledFrom([]int{0, 50, 500, 2100, 2600}), 1, 3).Draw(t, "responses")
		return c
	}
	gapMs := rapid.SampledFrom([]int{2300, 2600, 2900, 3200, 3600}).Draw(t, "startGapMs")
	gap := int64(gapMs) * int64(time.Millisecond)
	var st sg.Node
	switch rapid.IntRange(0, 3).Draw(t, "startupKind") {
	case 0: // `from` instances at once, then `step` more every gap
		from := rapid.IntRange(1, 2).Draw(t, "from")
		step := rapid.IntRange(1, 2).Draw(t, "step")
		st = sg.Node{Kind: "istep", From: float64(from), To: float64(from + step*rapid.IntRange(1, 2).Draw(t, "steps")), Step: int64(step), DurNs: gap}
	case 1: // bursts separated by a pause
		st = sg.Node{Kind: "composite", Children: []sg.Node{
			{Kind: "once", N: int64(rapid.IntRange(1, 2).Draw(t, "first"))},
			{Kind: "const", From: 0, DurNs: gap},
			{Kind: "once", N: int64(rapid.IntRange(1, 2).Draw(t, "second"))}}}
	case 2: // one instance per gap: at 0, gap, (2 gap)
		n := int64(rapid.IntRange(2, 3).Draw(t, "steady"))
		st = sg.Node{Kind: "const", From: 1e9 / float64(gap), DurNs: (n-1)*gap + gap/4}
	default: // ramp from zero: a*x*x/2 instances after x seconds, a = 2/gap^2: at 0 and gap, 2.25 by the end
		st = sg.Node{Kind: "line", From: 0, To: 3e9 / float64(gap), DurNs: gap + gap/2}
	}
	c.Startup = &st
	_, _, n, err := sg.Chain(sg.Flatten(st), time.Unix(1, 0))
	if err != nil || n < 1 {
		t.Fatalf("harness: startup schedule %+v holds %d instances (%v)", st, n, err)
	}
	c.Instances = n
	first := gapMs + rapid.SampledFrom([]int{300, 800, 1500}).Draw(t, "firstResponseOverGapMs")
	if rapid.IntRange(0, 3).Draw(t, "firstResponseShort") == 0 {
		first = rapid.SampledFrom([]int{500, 1700, 2100}).Draw(t, "firstResponseMs")
	}
	if !c.Discard {
		first = min(first, 2600)
	}
	c.ShotMs = append([]int{first}, rapid.SliceOfN(rapid.SampledFrom([]int{0, 50, 500, 2100, 2600}), 1, 3).Draw(t, "responses")...)
	return c
}

// TestStartup: the discard_overflow clauses for the FIRST request an instance picks up: instances that start while
// the run is under way (drawn startup schedule) and rps schedules that were started in the past. Same oracle (check).
func TestStartup(t *testing.T) {
	r := vf.Start(t, "C04")
	vf.Batch(r, r.Pick(16, 160), 16, genStartup, check)
}
