// C04, `step` sections: the load profile "from A to B requests per second in increments of S, every level lasting D"
// (docs/eng/load-profile.md, ## step) is a row of steady levels that follow each other. A level that is too low to
// hold a single request within D (0 rps, or rate x D < 1) is still a level: it lasts D, and the requests of the levels
// behind it are due D later. The oracle is the one of TestTiming (check): every shot is compared with its token's
// time and with the time the PROFILE gives the request (schedgen.Flatten expands a step section into its levels,
// schedgen.Chain lays them one after another).
package c04

import (
	"fmt"
	"testing"
	"time"

	sg "verif/harness/internal/schedgen"
	"verif/harness/internal/vf"

	"pgregory.net/rapid"
)

// genStepNode: 2-4 levels (one case in eight: a single level, from == to) of 250-900 ms each; the lowest level is
// 0, 0.5, 1, 2 or 3 rps, the increment 1-4 rps: with levels that short the first one to three levels hold no request
// in most cases (rate x duration < 1; durations of exactly 250 / 500 / 1000 ms put rate x duration on 1 exactly).
func genStepNode(t *rapid.T, label string) sg.Node {
	var ms int
	if rapid.IntRange(0, 3).Draw(t, label+"roundDur") == 0 {
		ms = rapid.SampledFrom([]int{250, 500, 1000}).Draw(t, label+"durMsRound")
	} else {
		ms = rapid.IntRange(250, 900).Draw(t, label+"durMs")
	}
	from := rapid.SampledFrom([]float64{0, 0, 0, 0.5, 1, 1, 2, 3}).Draw(t, label+"from")
	step := int64(rapid.IntRange(1, 4).Draw(t, label+"step"))
	levels := 1
	if rapid.IntRange(0, 7).Draw(t, label+"single") != 0 {
		levels = rapid.IntRange(2, 4).Draw(t, label+"levels")
	}
	to := from + float64(int64(levels-1)*step)
	if levels > 1 && rapid.IntRange(0, 3).Draw(t, label+"toBetweenLevels") == 0 {
		to += 0.5 // `to` need not be a level itself: the last level is the highest one not above it
	}
	return sg.Node{Kind: "step", From: from, To: to, Step: step, DurNs: int64(ms) * int64(time.Millisecond)}
}

// genStep: a step section alone, or with 1-2 other sections around it (burst, steady, ramp, pause, a second step
// section), one case in five with an `unlimited` tail of 80-200 ms; 1-3 instances, shared or per-instance, discard
// on/off; responses of 0-50 ms (instances are idle when a level starts), one case in five (discard on) with slow
// ones, so that tokens of a level are also picked up late and discarded.
func genStep(t *rapid.T) Case {
	c := Case{Step: true}
	c.Instances = rapid.IntRange(1, 3).Draw(t, "instances")
	c.PerInstance = rapid.IntRange(0, 3).Draw(t, "perInstance") == 0
	c.Discard = rapid.IntRange(0, 3).Draw(t, "discard") != 0
	small := func(label string) sg.Node {
		d := int64(rapid.IntRange(250, 800).Draw(t, label+"durMs")) * int64(time.Millisecond)
		n := rapid.IntRange(1, 4).Draw(t, label+"tok")
		rate := (float64(n) + 0.25) / (float64(d) / 1e9)
		switch rapid.IntRange(0, 4).Draw(t, label+"kind") {
		case 0:
			return sg.Node{Kind: "once", N: int64(rapid.IntRange(1, 3).Draw(t, label+"once"))}
		case 1:
			return sg.Node{Kind: "line", From: rate * 0.5, To: rate * 1.5, DurNs: d}
		case 2:
			return sg.Node{Kind: "const", From: 0, DurNs: d}
		case 3:
			return genStepNode(t, label)
		default:
			return sg.Node{Kind: "const", From: rate, DurNs: d}
		}
	}
	var ch []sg.Node
	switch rapid.IntRange(0, 4).Draw(t, "place") {
	case 0, 1: // the profile begins with the step section
		ch = []sg.Node{genStepNode(t, "s")}
		if rapid.Bool().Draw(t, "after") {
			ch = append(ch, small("post"))
		}
	case 2: // in the middle
		ch = []sg.Node{small("pre"), genStepNode(t, "s"), small("post")}
	default: // at the end
		ch = []sg.Node{small("pre"), genStepNode(t, "s")}
	}
	if rapid.IntRange(0, 4).Draw(t, "unlimitedTail") == 0 {
		ch = append(ch, sg.Node{Kind: "unlimited", DurNs: int64(rapid.IntRange(80, 200).Draw(t, "unlimitedMs")) * int64(time.Millisecond)})
	}
	if len(ch) == 1 && rapid.Bool().Draw(t, "bare") {
		c.Profile = ch[0] // `rps: {type: step, ...}`, not a list
	} else {
		c.Profile = sg.Node{Kind: "composite", Children: ch}
	}
	c.ShotMs = rapid.SliceOfN(rapid.SampledFrom([]int{0, 2, 20, 50}), 1, 3).Draw(t, "responses")
	if c.Discard && rapid.IntRange(0, 4).Draw(t, "slow") == 0 {
		c.ShotMs = append(c.ShotMs, rapid.SampledFrom([]int{500, 1700, 2100, 2600}).Draw(t, "slowResponse"))
	}
	return c
}

// stepFacts: what the step sections of a profile look like once laid out (parts = schedgen.Chain of the flattened
// profile, in the order of schedgen.Flatten).
type stepFacts struct {
	sections        int  // step sections in the profile
	emptyLevels     int  // levels without a single request
	leadingEmpty    bool // the profile begins with such a level: the first request of the run has to be waited for
	emptyAfterReqs  bool // such a level after requests of earlier sections
	reqsAfterEmpty  bool // limited-section requests scheduled behind such a level: their times depend on it lasting its duration
	severalEmpty    bool // a section with two or more such levels
	wholeEmpty      bool // a section none of whose levels holds a request (a pause written as a step section)
	fractionalFrom  bool
	beforeUnlimited bool // a level without a request somewhere before an unlimited section
}

func collectStepFacts(profile sg.Node, parts []sg.Part) (f stepFacts, err error) {
	top := []sg.Node{profile}
	if profile.Kind == "composite" {
		top = profile.Children
	}
	i, tokensSoFar := 0, 0
	seenEmpty, unknownSeen := false, false
	for _, n := range top {
		k := len(sg.Flatten(n))
		if i+k > len(parts) {
			return f, fmt.Errorf("harness: %d flattened parts, profile needs more", len(parts))
		}
		sect := parts[i : i+k]
		i += k
		if n.Kind == "step" {
			f.sections++
			f.fractionalFrom = f.fractionalFrom || n.From != float64(int64(n.From))
			empties, sectTokens := 0, 0
			for j, p := range sect {
				if len(p.Tokens) == 0 {
					empties++
					f.leadingEmpty = f.leadingEmpty || (i-k+j == 0)
					f.emptyAfterReqs = f.emptyAfterReqs || tokensSoFar > 0
					seenEmpty = true
				} else if seenEmpty && !unknownSeen {
					f.reqsAfterEmpty = true
				}
				sectTokens += len(p.Tokens)
				tokensSoFar += len(p.Tokens)
			}
			f.emptyLevels += empties
			f.severalEmpty = f.severalEmpty || empties >= 2
			f.wholeEmpty = f.wholeEmpty || sectTokens == 0
			continue
		}
		for _, p := range sect {
			if p.Leaf.Unknown() {
				f.beforeUnlimited = f.beforeUnlimited || seenEmpty
				unknownSeen = true
				continue
			}
			if len(p.Tokens) > 0 && seenEmpty && !unknownSeen {
				f.reqsAfterEmpty = true
			}
			tokensSoFar += len(p.Tokens)
		}
	}
	return f, nil
}

// TestStepProfile: "no request is fired before its scheduled time" for `step` sections, in particular those whose
// lowest level(s) hold no request.
func TestStepProfile(t *testing.T) {
	r := vf.Start(t, "C04")
	vf.Batch(r, r.Pick(24, 240), 24, genStep, check)
}
