// C04 — timing: no early shots; discard_overflow bounds lateness to the 2 s window.
//
// Real time (coreutil.Waiter reads time.Now and MaxOverdueDuration is a constant).
// Interval oracle: for each token, T = scheduled time, A = instant Next returned it
// to the instance, B = instant the instance entered Shoot or reported the discard;
// the instance "picks the token up" somewhere in [A, B].
package c04

import (
	"context"
	"fmt"
	"sort"
	"sync"
	"testing"
	"time"

	"verif/harness/internal/fake"
	"verif/harness/internal/pand"
	sg "verif/harness/internal/schedgen"
	"verif/harness/internal/vf"

	"github.com/yandex/pandora/core"
	"github.com/yandex/pandora/core/engine"
	"github.com/yandex/pandora/core/schedule"
	"pgregory.net/rapid"
)

const window = 2 * time.Second

type Case struct {
	Profile     sg.Node `json:"profile"`
	Instances   int     `json:"instances"`
	PerInstance bool    `json:"rps_per_instance"`
	Discard     bool    `json:"discard_overflow"`
	ShotMs      []int   `json:"response_ms"` // cyclic per gun
	// Dense: several thousand tokens per second for a fraction of a second and responses of 0-900 us, so that an
	// instance keeps arriving at its next token less than a millisecond ahead of time (ShotUs replaces ShotMs)
	Gap    bool  `json:"gap,omitempty"`            // see genGap
	Long   bool  `json:"long_wait,omitempty"`      // see genLongWait
	UnlTl  bool  `json:"unlimited_tail,omitempty"` // see genUnlimited
	Step   bool  `json:"step_profile,omitempty"`   // see genStep (step_test.go)
	Dense  bool  `json:"dense,omitempty"`
	ShotUs []int `json:"response_us,omitempty"`
	// Startup: the pool's `startup` schedule (nil: once(Instances), all instances at the start of the run); Instances
	// is then the number of instances the startup schedule holds (see genStartup, startup_test.go)
	Startup *sg.Node `json:"startup,omitempty"`
	// PreStartMs > 0: every rps schedule object is started (Schedule.Start) that long in the past before the pool
	// gets it, so that its first requests are already overdue when the first instance asks for one
	PreStartMs int `json:"rps_schedule_started_ms_ago,omitempty"`
	// Hiccup: a dense profile (thousands of tokens per second per instance for 2-4 s) against a target that answers at
	// once except for the shots number HiccupAtShot[i] of every gun, which take HiccupMs[i] (see genHiccup,
	// hiccup_test.go; replaces ShotMs)
	Hiccup       bool  `json:"dense_hiccup,omitempty"`
	HiccupAtShot []int `json:"hiccup_at_shot,omitempty"`
	HiccupMs     []int `json:"hiccup_ms,omitempty"`
}

func genDense(t *rapid.T) Case {
	c := Case{Dense: true}
	c.Instances = rapid.IntRange(1, 3).Draw(t, "instances")
	c.PerInstance = rapid.Bool().Draw(t, "perInstance")
	c.Discard = rapid.Bool().Draw(t, "discard")
	d := int64(rapid.IntRange(60, 250).Draw(t, "durMs")) * int64(time.Millisecond)
	rate := float64(rapid.SampledFrom([]int{700, 1500, 2500, 4000, 6000}).Draw(t, "rate"))
	if rapid.Bool().Draw(t, "line") {
		c.Profile = sg.Node{Kind: "line", From: rate * 0.5, To: rate * 1.5, DurNs: d}
	} else {
		c.Profile = sg.Node{Kind: "const", From: rate, DurNs: d}
	}
	c.ShotUs = rapid.SliceOfN(rapid.SampledFrom([]int{0, 0, 50, 150, 300, 600, 900}), 1, 4).Draw(t, "responsesUs")
	return c
}

func genProfile(t *rapid.T, maxTok int) sg.Node {
	leaf := func(label string) sg.Node {
		d := int64(rapid.IntRange(1000, 4000).Draw(t, label+"durMs")) * int64(time.Millisecond)
		n := rapid.IntRange(1, maxTok).Draw(t, label+"tok")
		rate := (float64(n) + 0.25) / (float64(d) / 1e9)
		switch rapid.IntRange(0, 3).Draw(t, label+"kind") {
		case 0:
			return sg.Node{Kind: "once", N: int64(rapid.IntRange(1, min(maxTok, 6)).Draw(t, label+"once"))}
		case 1:
			return sg.Node{Kind: "line", From: rate * 0.5, To: rate * 1.5, DurNs: d}
		default:
			return sg.Node{Kind: "const", From: rate, DurNs: d}
		}
	}
	if rapid.IntRange(0, 2).Draw(t, "composite") == 0 {
		return sg.Node{Kind: "composite", Children: []sg.Node{leaf("a"), leaf("b")}}
	}
	return leaf("s")
}

// genGap: a burst, a pause of 2.6-3.4 s without tokens, then a steady part; the first response of every gun is slow
// enough (2.1-2.6 s) that the rest of the burst is picked up >= 2 s late, and the tokens after the pause are then
// still in the future: tokens that must be waited for right after a discard.
func genGap(t *rapid.T) Case {
	c := Case{Discard: true, Gap: true}
	c.Instances = rapid.IntRange(1, 2).Draw(t, "instances")
	c.PerInstance = c.Instances > 1 && rapid.Bool().Draw(t, "perInstance")
	burst := int64(rapid.IntRange(c.Instances+1, c.Instances+3).Draw(t, "burst"))
	pause := int64(rapid.IntRange(2600, 3400).Draw(t, "pauseMs")) * int64(time.Millisecond)
	tail := rapid.IntRange(2, 5).Draw(t, "tailTokens")
	d := int64(1500 * time.Millisecond)
	c.Profile = sg.Node{Kind: "composite", Children: []sg.Node{
		{Kind: "once", N: burst},
		{Kind: "const", From: 0, DurNs: pause},
		{Kind: "const", From: (float64(tail) + 0.25) / (float64(d) / 1e9), DurNs: d},
	}}
	c.ShotMs = []int{rapid.SampledFrom([]int{2100, 2300, 2600}).Draw(t, "firstResponse"), 0, 0, 0, 0, 0, 0, 0, 0, 0, 0, 0}
	return c
}

// genUnlimited: profiles whose number of requests is not known in advance: 1-3 limited sections (steady, ramp, burst
// or pause) followed by an `unlimited` one (as fast as the target answers, for 80-300 ms), one case in three with
// another limited section behind it. Responses of 2-60 ms (one case in five has a 700 ms one among them), so that
// between the requests of a limited section an instance is back long before the next request is due, asking the
// schedule whether anything is left - what the instance loop does after every request.
func genUnlimited(t *rapid.T) Case {
	c := Case{UnlTl: true}
	c.Instances = rapid.IntRange(1, 3).Draw(t, "instances")
	c.PerInstance = rapid.IntRange(0, 3).Draw(t, "perInstance") == 0
	c.Discard = rapid.IntRange(0, 3).Draw(t, "discard") != 0
	limited := func(label string) sg.Node {
		d := int64(rapid.IntRange(400, 1500).Draw(t, label+"durMs")) * int64(time.Millisecond)
		n := rapid.IntRange(1, 8).Draw(t, label+"tok")
		rate := (float64(n) + 0.25) / (float64(d) / 1e9)
		switch rapid.IntRange(0, 5).Draw(t, label+"kind") {
		case 0:
			return sg.Node{Kind: "once", N: int64(rapid.IntRange(1, 4).Draw(t, label+"once"))}
		case 1:
			return sg.Node{Kind: "line", From: rate * 0.5, To: rate * 1.5, DurNs: d}
		case 2:
			return sg.Node{Kind: "const", From: 0, DurNs: d}
		default:
			return sg.Node{Kind: "const", From: rate, DurNs: d}
		}
	}
	var ch []sg.Node
	for i, n := 0, rapid.IntRange(1, 3).Draw(t, "limitedBefore"); i < n; i++ {
		ch = append(ch, limited(fmt.Sprintf("pre%d", i)))
	}
	ch = append(ch, sg.Node{Kind: "unlimited", DurNs: int64(rapid.IntRange(80, 300).Draw(t, "unlimitedMs")) * int64(time.Millisecond)})
	if rapid.IntRange(0, 2).Draw(t, "limitedAfter") == 0 {
		ch = append(ch, limited("post"))
	}
	c.Profile = sg.Node{Kind: "composite", Children: ch}
	c.ShotMs = rapid.SliceOfN(rapid.SampledFrom([]int{2, 5, 20, 60}), 1, 3).Draw(t, "responses")
	if rapid.IntRange(0, 4).Draw(t, "oneSlow") == 0 {
		c.ShotMs = append(c.ShotMs, 700)
	}
	return c
}

// genLongWait: one instance has to wait 4 s - maxGapMs for a single request: two steps separated by a pause, a steady
// rate of one request per 4 s and slower, or the start of a ramp from zero; 1-3 instances (idle instances of a
// shared schedule take tokens that lie several intervals ahead), fast responses.
func genLongWait(maxGapMs int) func(t *rapid.T) Case {
	return func(t *rapid.T) Case {
		c := Case{Long: true}
		c.Instances = rapid.IntRange(1, 3).Draw(t, "instances")
		c.PerInstance = c.Instances > 1 && rapid.Bool().Draw(t, "perInstance")
		c.Discard = rapid.Bool().Draw(t, "discard")
		// (rapid's integer ranges favour their low end: draw the band first, the long ones first)
		bands := [][2]int{}
		for lo, his := 5000, []int{7000, 10000, 15000, 26000}; len(his) > 0 && lo < maxGapMs; lo, his = his[0], his[1:] {
			bands = append(bands, [2]int{lo, min(his[0], maxGapMs)})
		}
		bands = append(bands, [2]int{4000, 5000})
		band := rapid.SampledFrom(bands).Draw(t, "gapBand")
		gapMs := rapid.IntRange(band[0]+1, band[1]).Draw(t, "gapMs")
		gap := int64(gapMs) * int64(time.Millisecond)
		small := func(label string) sg.Node {
			d := int64(rapid.IntRange(300, 1000).Draw(t, label+"durMs")) * int64(time.Millisecond)
			n := rapid.IntRange(1, 3).Draw(t, label+"tok")
			rate := (float64(n) + 0.25) / (float64(d) / 1e9)
			switch rapid.IntRange(0, 2).Draw(t, label+"kind") {
			case 0:
				return sg.Node{Kind: "once", N: int64(n)}
			case 1:
				return sg.Node{Kind: "line", From: rate * 0.5, To: rate * 1.5, DurNs: d}
			default:
				return sg.Node{Kind: "const", From: rate, DurNs: d}
			}
		}
		switch rapid.IntRange(0, 3).Draw(t, "shape") {
		case 0, 1: // steps separated by a pause (what instance_step-like load profiles look like)
			c.Profile = sg.Node{Kind: "composite", Children: []sg.Node{small("a"), {Kind: "const", From: 0, DurNs: gap}, small("b")}}
		case 2: // low steady rate: requests at 0, gap, (2 gap)
			n := 2
			if 2*gapMs <= maxGapMs*12/10 {
				n = rapid.IntRange(2, 3).Draw(t, "lowRateTokens")
			}
			c.Profile = sg.Node{Kind: "const", From: 1e9 / float64(gap), DurNs: int64(n)*gap + gap/4}
		default: // ramp from zero: a*x*x/2 requests after x seconds, a = 2/gap^2: requests at 0 and gap, 2.25 by the end
			c.Profile = sg.Node{Kind: "composite", Children: []sg.Node{
				{Kind: "line", From: 0, To: 3e9 / float64(gap), DurNs: gap + gap/2}, small("b")}}
		}
		c.ShotMs = rapid.SliceOfN(rapid.SampledFrom([]int{0, 20, 200}), 1, 3).Draw(t, "responses")
		return c
	}
}

func genCase(t *rapid.T) Case {
	if rapid.IntRange(0, 4).Draw(t, "gapShape") == 0 {
		return genGap(t)
	}
	c := Case{}
	c.Instances = rapid.IntRange(1, 4).Draw(t, "instances")
	c.PerInstance = rapid.IntRange(0, 3).Draw(t, "perInstance") == 0
	c.Discard = rapid.IntRange(0, 3).Draw(t, "discard") != 0
	slow := []int{0, 50, 500, 1700, 1900, 2100, 2400, 3000, 3500}
	if c.Discard {
		c.Profile = genProfile(t, 12)
		c.ShotMs = rapid.SliceOfN(rapid.SampledFrom(slow), 1, 4).Draw(t, "responses")
	} else {
		// nothing is discarded, so every token costs its response time: keep the total bounded
		c.Profile = genProfile(t, 4)
		c.ShotMs = rapid.SliceOfN(rapid.SampledFrom([]int{0, 50, 500, 2100, 2600}), 1, 3).Draw(t, "responses")
	}
	return c
}

type ev struct {
	at   time.Time
	kind string // next | shot | discard
	nx   fake.NextRec
	// the time the PROFILE schedules this request (a lower bound of it), see profRef
	prof    time.Time
	hasProf bool
	rank    int
	start   time.Time // lower bound of the instant the schedule object was started
}

// profRef is the timetable the load profile itself defines (docs/eng/load-profile.md: the sections of an `rps` list
// follow each other, a section lasts its `duration`), as offsets from the instant the schedule is started: each
// limited section drained alone from the finish of the section before it (schedgen.Chain). The tokens a schedule
// object hands out are ranked by their time; request k of the profile is the token of rank k.
//   - ranks below the token count of the sections before the first unknown-length (unlimited) section: exact offset;
//   - the last ranks, as many as the sections after the last unlimited section hold: exact offset, counted from the
//     end (a run that ended by itself has handed out every token);
//   - anything else (tokens of an unlimited section, of limited sections between two unlimited ones): not before the
//     start of the first unlimited section.
type profRef struct {
	front, back []time.Duration
	hasUnl      bool
	unlStart    time.Duration
}

func newProfRef(parts []sg.Part, r0 time.Time) profRef {
	pr := profRef{}
	firstUnl, lastUnl := len(parts), -1
	for i, p := range parts {
		if p.Leaf.Unknown() {
			if !pr.hasUnl {
				pr.hasUnl, pr.unlStart, firstUnl = true, p.Start.Sub(r0), i
			}
			lastUnl = i
		}
	}
	for i, p := range parts {
		for _, tx := range p.Tokens {
			switch {
			case i < firstUnl:
				pr.front = append(pr.front, tx.Sub(r0))
			case i > lastUnl:
				pr.back = append(pr.back, tx.Sub(r0))
			}
		}
	}
	return pr
}

// at: offset of the request of rank k out of n handed out by one schedule object.
func (pr profRef) at(k, n int) (time.Duration, bool) {
	if k < len(pr.front) {
		return pr.front[k], true
	}
	if !pr.hasUnl {
		return 0, false // more tokens than the profile holds: reported by the count check
	}
	if j := k - (n - len(pr.back)); j >= 0 && n >= len(pr.front)+len(pr.back) {
		return pr.back[j], true
	}
	return pr.unlStart, true
}

func check(c Case, o *vf.Obs) error {
	leaves := sg.Flatten(c.Profile)
	r0 := time.Unix(1, 0)
	parts, fin, T, err := sg.Chain(leaves, r0)
	if err != nil {
		return err
	}
	pr := newProfRef(parts, r0)
	profDur := fin.Sub(r0)
	shotUs := make([]int, len(c.ShotMs))
	maxResp := time.Duration(0)
	for i, ms := range c.ShotMs {
		shotUs[i] = ms * 1000
		if d := time.Duration(ms) * time.Millisecond; d > maxResp {
			maxResp = d
		}
	}
	if c.Dense {
		shotUs = c.ShotUs
		maxResp = time.Millisecond
	}
	tokens := T
	if c.PerInstance {
		tokens = T * c.Instances
	}
	if c.Hiccup {
		shotUs, maxResp = hiccupPlan(c, tokens)
	}
	queue := 4
	if c.Hiccup {
		queue = 4096 // thousands of requests per second: the ammo is there when an instance asks for it
	}
	prov := fake.NewProvider(fake.ProviderPlan{Total: -1, Queue: queue, AfterLast: "wait_ctx"})
	guns := fake.NewGunWorld(fake.GunPlan{ShotUs: shotUs, PanicAtShot: -1, FactoryErrAt: -1, BindErrAt: -1})
	aggr := fake.NewAggregator(fake.AggPlan{})
	aggr.KeepTags = true
	m := pand.Metrics()
	var mu sync.Mutex
	var scheds []*fake.Sched
	explicitStart := map[*fake.Sched]time.Time{}
	newSched := func() (core.Schedule, error) {
		s := fake.WrapSched(sg.Build(c.Profile))
		mu.Lock()
		scheds = append(scheds, s)
		if c.PreStartMs > 0 {
			at := time.Now().Add(-time.Duration(c.PreStartMs) * time.Millisecond)
			s.Start(at)
			explicitStart[s] = at
		}
		mu.Unlock()
		return s, nil
	}
	var startup core.Schedule = schedule.NewOnce(int64(c.Instances))
	if c.Startup != nil {
		startup = sg.Build(*c.Startup)
	}
	conf := engine.Config{Pools: []engine.InstancePoolConfig{{
		ID: "p", Provider: prov, Aggregator: aggr, NewGun: guns.Factory,
		RPSPerInstance: c.PerInstance, NewRPSSchedule: newSched,
		StartupSchedule: startup, DiscardOverflow: c.Discard,
	}}}
	eng := engine.New(pand.NopLog(), m, conf)
	ctx, cancel := context.WithCancel(context.Background())
	defer cancel()
	// hard bound of the run length
	var bound time.Duration
	if c.Discard {
		bound = profDur + window + maxResp + 3*time.Second
	} else {
		bound = profDur + time.Duration(tokens+1)*maxResp + 5*time.Second
	}
	// discard off: the bound only guards against a run that never ends ("every token is eventually fired"). It is
	// made of the fake guns' response times, which are sleeps: on a machine so busy that this process's own 2 ms
	// sleeps are measurably late the responses are late as well, and the run gets five times the bound more.
	var probe *vf.LoadProbe
	if !c.Discard {
		probe = vf.StartLoadProbe()
	}
	var starve *starveProbe
	if c.Hiccup {
		starve = startStarveProbe()
	}
	t0 := time.Now()
	var runErr error
	done := make(chan struct{})
	go func() { runErr = eng.Run(ctx); close(done) }()
	expired := false
	select {
	case <-done:
	case <-time.After(bound):
		expired = true
	}
	if probe != nil {
		if late := probe.Stop(); expired && late > 5*time.Millisecond {
			select {
			case <-done:
				expired = false
				o.Class("discard_off_run_bound_extended_under_machine_load")
			case <-time.After(5 * bound):
			}
		}
	}
	if starve != nil {
		// dense profiles: the run is made of tens of thousands of tokens each of which costs the recording doubles CPU
		// time; on a machine so busy that more than one in ten of this process's own 2 ms sleeps was woken > 5 ms late
		// that work is late as well, and the run gets the bound once more
		share := starve.Stop()
		if expired && share > 0.1 {
			select {
			case <-done:
				expired = false
				o.Class("dense_hiccup_run_bound_extended_under_machine_load")
			case <-time.After(bound):
			}
		}
		o.Note("share_of_own_2ms_sleeps_woken_5ms_late", share)
	}
	if expired {
		cancel()
		<-done
		if c.Discard {
			return fmt.Errorf("run still going after %v: profile lasts %v, slowest response %v, discard_overflow on — run length must stay within profile + 2s + response time",
				time.Since(t0), profDur, maxResp)
		}
		return fmt.Errorf("run still going after %v (profile %v, %d tokens, slowest response %v)", time.Since(t0), profDur, tokens, maxResp)
	}
	if runErr != nil {
		return fmt.Errorf("Engine.Run: %v", runErr)
	}
	// ---- join events per instance goroutine ----
	byG := map[int64][]ev{}
	nexts := 0
	for _, s := range scheds {
		log := s.Log()
		// Nobody starts the schedule explicitly: it starts at the clock reading taken inside the first Next, which is
		// not before the earliest instant a Next call was entered.
		// (a schedule started explicitly starts at the time it was given)
		mu.Lock()
		explicit, isExplicit := explicitStart[s]
		mu.Unlock()
		var started time.Time
		var oks []int
		for i, r := range log {
			if isExplicit {
				started = explicit
			} else if started.IsZero() || r.Before.Before(started) {
				started = r.Before
			}
			if r.OK {
				oks = append(oks, i)
			}
		}
		sort.SliceStable(oks, func(a, b int) bool { return log[oks[a]].Tx.Before(log[oks[b]].Tx) })
		for k, i := range oks {
			r := log[i]
			e := ev{at: r.After, kind: "next", nx: r, rank: k, start: started}
			if off, ok := pr.at(k, len(oks)); ok {
				e.prof, e.hasProf = started.Add(off), true
			}
			byG[r.G] = append(byG[r.G], e)
			nexts++
		}
	}
	for _, sh := range guns.Shots {
		byG[sh.G] = append(byG[sh.G], ev{at: sh.Enter, kind: "shot"})
	}
	discards := 0
	for i, tag := range aggr.Tags {
		if tag == "discarded" {
			byG[aggr.ReportG[i]] = append(byG[aggr.ReportG[i]], ev{at: aggr.ReportTimes[i], kind: "discard"})
			discards++
		}
	}
	fired := len(guns.Shots)
	if !pr.hasUnl && nexts != tokens {
		return fmt.Errorf("%d tokens were handed out, the profile holds %d", nexts, tokens)
	}
	if pr.hasUnl && nexts < tokens {
		return fmt.Errorf("%d tokens were handed out, the limited sections of the profile alone hold %d", nexts, tokens)
	}
	if fired+discards != nexts {
		return fmt.Errorf("fired %d + discarded %d != tokens handed out %d", fired, discards, nexts)
	}
	if !c.Discard && discards > 0 {
		return fmt.Errorf("%d requests reported as discarded although discard_overflow is off", discards)
	}
	late12, late23, late3, lateOver1, onTime, waitedAfterDiscard := 0, 0, 0, 0, 0, 0
	vsProfile, longestWait := 0, time.Duration(0)
	// the first request an instance asks for: how late it is, and how long after the start of the run it was asked for
	firstLate2, firstLateLt2, lateStarters, lateStarterFirstLate2, lateStarterOnTime := 0, 0, 0, 0, 0
	// instances that discarded a token and fired a later one (the target answers again and gets load again), and
	// instances that discarded at all
	resumedInstances, discardingInstances := 0, 0
	for g, evs := range byG {
		sort.SliceStable(evs, func(i, j int) bool { return evs[i].at.Before(evs[j].at) })
		discarded, resumed := false, false
		for _, e := range evs {
			discarded = discarded || e.kind == "discard"
			resumed = resumed || (discarded && e.kind == "shot")
		}
		if discarded {
			discardingInstances++
		}
		if resumed {
			resumedInstances++
		}
		for i := 0; i < len(evs); i++ {
			if evs[i].kind != "next" {
				return fmt.Errorf("harness: goroutine %d has a %s without a preceding token", g, evs[i].kind)
			}
			if i+1 >= len(evs) || evs[i+1].kind == "next" {
				return fmt.Errorf("token scheduled at t+%v was neither fired nor reported as discarded", evs[i].nx.Tx.Sub(t0))
			}
			nx, out := evs[i].nx, evs[i+1]
			i++
			Tt, A, B := nx.Tx, nx.After, out.at
			if out.kind == "shot" && B.Before(Tt) {
				return fmt.Errorf("request fired %v BEFORE its scheduled time (scheduled t+%v, fired t+%v)", Tt.Sub(B), Tt.Sub(t0), B.Sub(t0))
			}
			if out.kind == "shot" && evs[i-1].hasProf {
				// the token's own time is what the schedule object said; the time the user asked for is the profile's
				vsProfile++
				if P := evs[i-1].prof; B.Before(P) {
					return fmt.Errorf("request fired %v BEFORE the time the load profile schedules it: request #%d of the schedule is due no earlier than t+%v "+
						"(sections chained from the start of the schedule at t+%v), fired at t+%v; the token handed out for it said t+%v",
						P.Sub(B), evs[i-1].rank+1, P.Sub(t0), evs[i-1].start.Sub(t0), B.Sub(t0), Tt.Sub(t0))
				}
			}
			lateA, lateB := A.Sub(Tt), B.Sub(Tt)
			if i == 1 {
				lateStart := nx.Before.Sub(t0) >= time.Second
				switch {
				case lateA >= window:
					firstLate2++
					if lateStart {
						lateStarterFirstLate2++
					}
				case lateA >= 300*time.Millisecond:
					firstLateLt2++
				case lateStart:
					lateStarterOnTime++
				}
				if lateStart {
					lateStarters++
				}
			}
			if w := Tt.Sub(A); out.kind == "shot" && w > longestWait {
				longestWait = w // handed out this long ahead of its time: the instance has to wait that long in one go
			}
			if out.kind == "shot" && lateB < time.Millisecond {
				onTime++ // the instance was waiting for this token: fired within a millisecond after its time
			}
			switch {
			case lateA >= 3*time.Second:
				late3++
			case lateA >= 2*time.Second:
				late23++
			case lateA >= time.Second:
				late12++
			}
			if lateA >= time.Second {
				lateOver1++
			}
			if i >= 3 && evs[i-2].kind == "discard" && lateA < 0 {
				waitedAfterDiscard++ // handed out ahead of its time right after this instance discarded a token
			}
			if c.Discard {
				if lateA >= window && out.kind != "discard" {
					return fmt.Errorf("token scheduled at t+%v was handed to the instance %v late (>= 2s) but was fired instead of being reported as discarded",
						Tt.Sub(t0), lateA)
				}
				if lateB < window && out.kind != "shot" {
					return fmt.Errorf("token scheduled at t+%v was only %v late (< 2s) when the instance acted on it, but was discarded", Tt.Sub(t0), lateB)
				}
			}
		}
	}
	o.ClassIf(late12 > 0, "late_1_2s")
	o.ClassIf(late23 > 0, "late_2_3s")
	o.ClassIf(late3 > 0, "late_ge_3s")
	o.ClassIf(c.Instances > 1, "instances_gt_1")
	o.ClassIf(c.Discard, "discard_on")
	o.ClassIf(!c.Discard, "discard_off")
	o.ClassIf(discards > 0, "discards_seen")
	o.ClassIf(c.PerInstance, "per_instance")
	o.ClassIf(c.Dense, "dense_profile")
	o.ClassIf(c.Gap, "burst_pause_steady_profile")
	o.ClassIf(waitedAfterDiscard > 0, "token_waited_for_right_after_a_discard")
	o.ClassIf(onTime >= 10, "shots_within_1ms_after_their_time")
	// a limited section that is followed, somewhere later, by one of unknown length (the number of tokens left is
	// unknown while it lasts), and whose end some instance reaches idle: every response is shorter than the time
	// between the last request before the section's end and that end
	idleBeforeUnknown, unknownAfterLimited := false, false
	if pr.hasUnl {
		lastBusy := r0
		for i, p := range parts {
			if p.Leaf.Unknown() {
				lastBusy = p.Finish
				continue
			}
			if n := len(p.Tokens); n > 0 {
				lastBusy = p.Tokens[n-1]
			}
			later := false
			for _, q := range parts[i+1:] {
				later = later || q.Leaf.Unknown()
			}
			if later && p.Finish.After(p.Start) {
				unknownAfterLimited = true
				idleBeforeUnknown = idleBeforeUnknown || p.Finish.Sub(lastBusy) > maxResp+5*time.Millisecond
			}
		}
	}
	o.ClassIf(pr.hasUnl, "unlimited_section_in_profile")
	o.ClassIf(unknownAfterLimited, "limited_section_before_unlimited")
	o.ClassIf(idleBeforeUnknown, "instance_idle_at_end_of_limited_section_before_unlimited")
	o.ClassIf(pr.hasUnl && len(pr.back) > 0, "limited_section_after_unlimited")
	o.ClassIf(pr.hasUnl && nexts > tokens, "unlimited_section_fired")
	o.ClassIf(vsProfile > 0, "shots_compared_with_profile_time")
	o.ClassIf(c.Long, "long_wait_profile")
	if c.Hiccup {
		// what a hiccup leaves behind: the tokens per instance the profile still holds when the first slow response
		// begins (the run-length bound leaves 3 s for skipping the overdue ones among them and for the harness)
		rest := 0
		if c.Instances > 0 && len(c.HiccupAtShot) > 0 {
			rest = tokens/c.Instances - c.HiccupAtShot[0]
		}
		o.Class("dense_hiccup_profile", "dense_hiccup_profile_"+c.Profile.Kind)
		o.ClassIf(discardingInstances >= c.Instances, "dense_hiccup_every_instance_discarded")
		o.ClassIf(resumedInstances > 0, "dense_hiccup_shots_resumed_after_discards")
		o.ClassIf(rest >= 5000 && discardingInstances >= c.Instances, "dense_hiccup_every_instance_ge_2s_behind_with_ge_5000_tokens_each_to_come")
		o.ClassIf(rest >= 10000 && discardingInstances >= c.Instances, "dense_hiccup_every_instance_ge_2s_behind_with_ge_10000_tokens_each_to_come")
		o.ClassIf(len(c.HiccupAtShot) > 1, "dense_hiccup_two_hiccups")
		o.ClassIf(c.Instances > 1, "dense_hiccup_instances_gt_1")
		o.Note("tokens_per_instance_to_come_at_first_hiccup", rest)
	}
	o.ClassIf(c.Startup != nil, "gradual_startup")
	o.ClassIf(c.PreStartMs > 0, "rps_schedule_started_in_the_past")
	o.ClassIf(lateStarters > 0, "instance_started_ge_1s_into_the_run")
	o.ClassIf(firstLate2 > 0, "instance_first_request_ge_2s_overdue")
	o.ClassIf(lateStarterFirstLate2 > 0, "late_started_instance_first_request_ge_2s_overdue")
	o.ClassIf(c.PreStartMs > 0 && firstLate2 > 0, "prestarted_schedule_first_request_ge_2s_overdue")
	o.ClassIf(c.Discard && lateStarterFirstLate2 > 0, "discard_on_late_started_instance_first_request_ge_2s_overdue")
	o.ClassIf(c.Discard && c.PreStartMs > 0 && firstLate2 > 0, "discard_on_prestarted_schedule_first_request_ge_2s_overdue")
	o.ClassIf(c.Discard && firstLateLt2 > 0, "discard_on_instance_first_request_overdue_lt_2s")
	o.ClassIf(firstLateLt2 > 0, "instance_first_request_overdue_lt_2s")
	o.ClassIf(lateStarterOnTime > 0, "late_started_instance_first_request_on_time")
	if c.Startup != nil {
		o.Class("startup_" + c.Startup.Kind)
	}
	o.ClassIf(longestWait >= 3*time.Second, "single_wait_ge_3s")
	o.ClassIf(longestWait >= 5*time.Second, "single_wait_ge_5s")
	o.ClassIf(longestWait >= 8*time.Second, "single_wait_ge_8s")
	o.ClassIf(longestWait >= 12*time.Second, "single_wait_ge_12s")
	// step sections (in any test's profile): which of their levels hold no request
	sf, err := collectStepFacts(c.Profile, parts)
	if err != nil {
		return err
	}
	o.ClassIf(sf.sections > 0, "step_section_in_profile")
	o.ClassIf(sf.emptyLevels > 0, "step_level_without_request")
	o.ClassIf(sf.leadingEmpty, "step_profile_begins_with_level_without_request")
	o.ClassIf(sf.emptyAfterReqs, "step_level_without_request_after_earlier_requests")
	o.ClassIf(sf.severalEmpty, "step_two_or_more_levels_without_request")
	o.ClassIf(sf.wholeEmpty, "step_section_without_any_request")
	o.ClassIf(sf.fractionalFrom, "step_fractional_from")
	o.ClassIf(sf.beforeUnlimited, "step_level_without_request_before_unlimited")
	o.ClassIf(sf.sections > 0 && sf.emptyLevels == 0, "step_every_level_has_requests")
	o.ClassIf(sf.reqsAfterEmpty && vsProfile > 0, "requests_behind_step_level_without_request_compared_with_profile_time")
	switch {
	case c.Startup != nil || c.PreStartMs > 0:
		// some instance asked for its first request a second or more into the run, or found it overdue
		if lateStarters > 0 || firstLate2+firstLateLt2 > 0 {
			o.NonTrivial()
		}
	case c.Step:
		if sf.reqsAfterEmpty && vsProfile > 0 {
			o.NonTrivial()
		}
	case c.Hiccup:
		// every instance fell >= 2 s behind (it discarded), and some instance fired again afterwards
		if discardingInstances >= c.Instances && resumedInstances > 0 {
			o.NonTrivial()
		}
	case c.Long:
		if longestWait >= 3*time.Second {
			o.NonTrivial()
		}
	case c.UnlTl:
		if idleBeforeUnknown && nexts > tokens && vsProfile > 0 {
			o.NonTrivial()
		}
	case lateOver1 > 0 || (c.Dense && onTime >= 10):
		o.NonTrivial()
	}
	o.Note("longest_single_wait_s", longestWait.Seconds())
	o.Note("shots_compared_with_profile_time", vsProfile)
	o.Note("fired_within_1ms_after_token_time", onTime)
	o.Note("tokens", tokens)
	o.Note("fired", fired)
	o.Note("discarded", discards)
	o.Note("run_s", time.Since(t0).Seconds())
	return nil
}

// TestNoEarlyShotDense: "no request is fired before its scheduled time" where instances arrive at their next token
// a fraction of a millisecond early, thousands of times per second.
func TestNoEarlyShotDense(t *testing.T) {
	r := vf.Start(t, "C04")
	vf.Batch(r, r.Pick(24, 240), 6, genDense, check)
}

func TestTiming(t *testing.T) {
	r := vf.Start(t, "C04")
	vf.Batch(r, r.Pick(48, 480), 48, genCase, check)
}

// TestProfileTime: "no request is fired before its scheduled time" where the scheduled time is the one the load
// profile defines (sections follow each other), for profiles whose token count is unknown in advance: limited
// sections followed by an unlimited one. The instance loop asks the schedule between requests whether it is
// finished; that question must not move the timetable.
func TestProfileTime(t *testing.T) {
	r := vf.Start(t, "C04")
	vf.Batch(r, r.Pick(24, 240), 24, genUnlimited, check)
}

// TestLongWaits: single waits of 4-11 s (thorough: up to 26 s) for one request: pauses between load steps, rates
// below 0.25 rps, the start of a ramp from zero. All cases of a process run concurrently (they sleep).
func TestLongWaits(t *testing.T) {
	r := vf.Start(t, "C04")
	vf.Batch(r, r.Pick(12, 40), 40, genLongWait(r.Pick(11000, 26000)), check)
}
