// C04 — timing: no early shots; discard_overflow bounds lateness to the 2 s window.
//
// Real time (coreutil.Waiter reads time.Now and MaxOverdueDuration is a constant).
// Interval oracle: for each token, T = scheduled time, A = instant Next returned it
// to the instance, B = instant the instance entered Shoot or reported the discard;
// the instance "picks the token up" somewhere in [A, B].
package c04

import (
	"context"
	"fmt"
	"sort"
	"sync"
	"testing"
	"time"

	"verif/harness/internal/fake"
	"verif/harness/internal/pand"
	sg "verif/harness/internal/schedgen"
	"verif/harness/internal/vf"

	"github.com/yandex/pandora/core"
	"github.com/yandex/pandora/core/engine"
	"github.com/yandex/pandora/core/schedule"
	"pgregory.net/rapid"
)

const window = 2 * time.Second

type Case struct {
	Profile     sg.Node `json:"profile"`
	Instances   int     `json:"instances"`
	PerInstance bool    `json:"rps_per_instance"`
	Discard     bool    `json:"discard_overflow"`
	ShotMs      []int   `json:"response_ms"` // cyclic per gun
	// Dense: several thousand tokens per second for a fraction of a second and responses of 0-900 us, so that an
	// instance keeps arriving at its next token less than a millisecond ahead of time (ShotUs replaces ShotMs)
	Gap    bool  `json:"gap,omitempty"` // see genGap
	Dense  bool  `json:"dense,omitempty"`
	ShotUs []int `json:"response_us,omitempty"`
}

func genDense(t *rapid.T) Case {
	c := Case{Dense: true}
	c.Instances = rapid.IntRange(1, 3).Draw(t, "instances")
	c.PerInstance = rapid.Bool().Draw(t, "perInstance")
	c.Discard = rapid.Bool().Draw(t, "discard")
	d := int64(rapid.IntRange(60, 250).Draw(t, "durMs")) * int64(time.Millisecond)
	rate := float64(rapid.SampledFrom([]int{700, 1500, 2500, 4000, 6000}).Draw(t, "rate"))
	if rapid.Bool().Draw(t, "line") {
		c.Profile = sg.Node{Kind: "line", From: rate * 0.5, To: rate * 1.5, DurNs: d}
	} else {
		c.Profile = sg.Node{Kind: "const", From: rate, DurNs: d}
	}
	c.ShotUs = rapid.SliceOfN(rapid.SampledFrom([]int{0, 0, 50, 150, 300, 600, 900}), 1, 4).Draw(t, "responsesUs")
	return c
}

func genProfile(t *rapid.T, maxTok int) sg.Node {
	leaf := func(label string) sg.Node {
		d := int64(rapid.IntRange(1000, 4000).Draw(t, label+"durMs")) * int64(time.Millisecond)
		n := rapid.IntRange(1, maxTok).Draw(t, label+"tok")
		rate := (float64(n) + 0.25) / (float64(d) / 1e9)
		switch rapid.IntRange(0, 3).Draw(t, label+"kind") {
		case 0:
			return sg.Node{Kind: "once", N: int64(rapid.IntRange(1, min(maxTok, 6)).Draw(t, label+"once"))}
		case 1:
			return sg.Node{Kind: "line", From: rate * 0.5, To: rate * 1.5, DurNs: d}
		default:
			return sg.Node{Kind: "const", From: rate, DurNs: d}
		}
	}
	if rapid.IntRange(0, 2).Draw(t, "composite") == 0 {
		return sg.Node{Kind: "composite", Children: []sg.Node{leaf("a"), leaf("b")}}
	}
	return leaf("s")
}

// genGap: a burst, a pause of 2.6-3.4 s without tokens, then a steady part; the first response of every gun is slow
// enough (2.1-2.6 s) that the rest of the burst is picked up >= 2 s late, and the tokens after the pause are then
// still in the future: tokens that must be waited for right after a discard.
func genGap(t *rapid.T) Case {
	c := Case{Discard: true, Gap: true}
	c.Instances = rapid.IntRange(1, 2).Draw(t, "instances")
	c.PerInstance = c.Instances > 1 && rapid.Bool().Draw(t, "perInstance")
	burst := int64(rapid.IntRange(c.Instances+1, c.Instances+3).Draw(t, "burst"))
	pause := int64(rapid.IntRange(2600, 3400).Draw(t, "pauseMs")) * int64(time.Millisecond)
	tail := rapid.IntRange(2, 5).Draw(t, "tailTokens")
	d := int64(1500 * time.Millisecond)
	c.Profile = sg.Node{Kind: "composite", Children: []sg.Node{
		{Kind: "once", N: burst},
		{Kind: "const", From: 0, DurNs: pause},
		{Kind: "const", From: (float64(tail) + 0.25) / (float64(d) / 1e9), DurNs: d},
	}}
	c.ShotMs = []int{rapid.SampledFrom([]int{2100, 2300, 2600}).Draw(t, "firstResponse"), 0, 0, 0, 0, 0, 0, 0, 0, 0, 0, 0}
	return c
}

func genCase(t *rapid.T) Case {
	if rapid.IntRange(0, 4).Draw(t, "gapShape") == 0 {
		return genGap(t)
	}
	c := Case{}
	c.Instances = rapid.IntRange(1, 4).Draw(t, "instances")
	c.PerInstance = rapid.IntRange(0, 3).Draw(t, "perInstance") == 0
	c.Discard = rapid.IntRange(0, 3).Draw(t, "discard") != 0
	slow := []int{0, 50, 500, 1700, 1900, 2100, 2400, 3000, 3500}
	if c.Discard {
		c.Profile = genProfile(t, 12)
		c.ShotMs = rapid.SliceOfN(rapid.SampledFrom(slow), 1, 4).Draw(t, "responses")
	} else {
		// nothing is discarded, so every token costs its response time: keep the total bounded
		c.Profile = genProfile(t, 4)
		c.ShotMs = rapid.SliceOfN(rapid.SampledFrom([]int{0, 50, 500, 2100, 2600}), 1, 3).Draw(t, "responses")
	}
	return c
}

type ev struct {
	at   time.Time
	kind string // next | shot | discard
	nx   fake.NextRec
}

func check(c Case, o *vf.Obs) error {
	leaves := sg.Flatten(c.Profile)
	_, fin, T, err := sg.Chain(leaves, time.Unix(1, 0))
	if err != nil {
		return err
	}
	profDur := fin.Sub(time.Unix(1, 0))
	shotUs := make([]int, len(c.ShotMs))
	maxResp := time.Duration(0)
	for i, ms := range c.ShotMs {
		shotUs[i] = ms * 1000
		if d := time.Duration(ms) * time.Millisecond; d > maxResp {
			maxResp = d
		}
	}
	if c.Dense {
		shotUs = c.ShotUs
		maxResp = time.Millisecond
	}
	prov := fake.NewProvider(fake.ProviderPlan{Total: -1, Queue: 4, AfterLast: "wait_ctx"})
	guns := fake.NewGunWorld(fake.GunPlan{ShotUs: shotUs, PanicAtShot: -1, FactoryErrAt: -1, BindErrAt: -1})
	aggr := fake.NewAggregator(fake.AggPlan{})
	aggr.KeepTags = true
	m := pand.Metrics()
	var mu sync.Mutex
	var scheds []*fake.Sched
	newSched := func() (core.Schedule, error) {
		s := fake.WrapSched(sg.Build(c.Profile))
		mu.Lock()
		scheds = append(scheds, s)
		mu.Unlock()
		return s, nil
	}
	conf := engine.Config{Pools: []engine.InstancePoolConfig{{
		ID: "p", Provider: prov, Aggregator: aggr, NewGun: guns.Factory,
		RPSPerInstance: c.PerInstance, NewRPSSchedule: newSched,
		StartupSchedule: schedule.NewOnce(int64(c.Instances)), DiscardOverflow: c.Discard,
	}}}
	eng := engine.New(pand.NopLog(), m, conf)
	ctx, cancel := context.WithCancel(context.Background())
	defer cancel()
	tokens := T
	if c.PerInstance {
		tokens = T * c.Instances
	}
	// hard bound of the run length
	var bound time.Duration
	if c.Discard {
		bound = profDur + window + maxResp + 3*time.Second
	} else {
		bound = profDur + time.Duration(tokens)*maxResp + 5*time.Second
	}
	t0 := time.Now()
	var runErr error
	done := make(chan struct{})
	go func() { runErr = eng.Run(ctx); close(done) }()
	select {
	case <-done:
	case <-time.After(bound):
		cancel()
		<-done
		if c.Discard {
			return fmt.Errorf("run still going after %v: profile lasts %v, slowest response %v, discard_overflow on — run length must stay within profile + 2s + response time",
				time.Since(t0), profDur, maxResp)
		}
		return fmt.Errorf("run still going after %v (profile %v, %d tokens, slowest response %v)", time.Since(t0), profDur, tokens, maxResp)
	}
	if runErr != nil {
		return fmt.Errorf("Engine.Run: %v", runErr)
	}
	// ---- join events per instance goroutine ----
	byG := map[int64][]ev{}
	nexts := 0
	for _, s := range scheds {
		for _, r := range s.Log() {
			if r.OK {
				byG[r.G] = append(byG[r.G], ev{at: r.After, kind: "next", nx: r})
				nexts++
			}
		}
	}
	for _, sh := range guns.Shots {
		byG[sh.G] = append(byG[sh.G], ev{at: sh.Enter, kind: "shot"})
	}
	discards := 0
	for i, tag := range aggr.Tags {
		if tag == "discarded" {
			byG[aggr.ReportG[i]] = append(byG[aggr.ReportG[i]], ev{at: aggr.ReportTimes[i], kind: "discard"})
			discards++
		}
	}
	fired := len(guns.Shots)
	if nexts != tokens {
		return fmt.Errorf("%d tokens were handed out, the profile holds %d", nexts, tokens)
	}
	if fired+discards != tokens {
		return fmt.Errorf("fired %d + discarded %d != tokens %d", fired, discards, tokens)
	}
	if !c.Discard && discards > 0 {
		return fmt.Errorf("%d requests reported as discarded although discard_overflow is off", discards)
	}
	late12, late23, late3, lateOver1, onTime, waitedAfterDiscard := 0, 0, 0, 0, 0, 0
	for g, evs := range byG {
		sort.SliceStable(evs, func(i, j int) bool { return evs[i].at.Before(evs[j].at) })
		for i := 0; i < len(evs); i++ {
			if evs[i].kind != "next" {
				return fmt.Errorf("harness: goroutine %d has a %s without a preceding token", g, evs[i].kind)
			}
			if i+1 >= len(evs) || evs[i+1].kind == "next" {
				return fmt.Errorf("token scheduled at t+%v was neither fired nor reported as discarded", evs[i].nx.Tx.Sub(t0))
			}
			nx, out := evs[i].nx, evs[i+1]
			i++
			Tt, A, B := nx.Tx, nx.After, out.at
			if out.kind == "shot" && B.Before(Tt) {
				return fmt.Errorf("request fired %v BEFORE its scheduled time (scheduled t+%v, fired t+%v)", Tt.Sub(B), Tt.Sub(t0), B.Sub(t0))
			}
			lateA, lateB := A.Sub(Tt), B.Sub(Tt)
			if out.kind == "shot" && lateB < time.Millisecond {
				onTime++ // the instance was waiting for this token: fired within a millisecond after its time
			}
			switch {
			case lateA >= 3*time.Second:
				late3++
			case lateA >= 2*time.Second:
				late23++
			case lateA >= time.Second:
				late12++
			}
			if lateA >= time.Second {
				lateOver1++
			}
			if i >= 3 && evs[i-2].kind == "discard" && lateA < 0 {
				waitedAfterDiscard++ // handed out ahead of its time right after this instance discarded a token
			}
			if c.Discard {
				if lateA >= window && out.kind != "discard" {
					return fmt.Errorf("token scheduled at t+%v was handed to the instance %v late (>= 2s) but was fired instead of being reported as discarded",
						Tt.Sub(t0), lateA)
				}
				if lateB < window && out.kind != "shot" {
					return fmt.Errorf("token scheduled at t+%v was only %v late (< 2s) when the instance acted on it, but was discarded", Tt.Sub(t0), lateB)
				}
			}
		}
	}
	o.ClassIf(late12 > 0, "late_1_2s")
	o.ClassIf(late23 > 0, "late_2_3s")
	o.ClassIf(late3 > 0, "late_ge_3s")
	o.ClassIf(c.Instances > 1, "instances_gt_1")
	o.ClassIf(c.Discard, "discard_on")
	o.ClassIf(!c.Discard, "discard_off")
	o.ClassIf(discards > 0, "discards_seen")
	o.ClassIf(c.PerInstance, "per_instance")
	o.ClassIf(c.Dense, "dense_profile")
	o.ClassIf(c.Gap, "burst_pause_steady_profile")
	o.ClassIf(waitedAfterDiscard > 0, "token_waited_for_right_after_a_discard")
	o.ClassIf(onTime >= 10, "shots_within_1ms_after_their_time")
	if lateOver1 > 0 || (c.Dense && onTime >= 10) {
		o.NonTrivial()
	}
	o.Note("fired_within_1ms_after_token_time", onTime)
	o.Note("tokens", tokens)
	o.Note("fired", fired)
	o.Note("discarded", discards)
	o.Note("run_s", time.Since(t0).Seconds())
	return nil
}

// TestNoEarlyShotDense: "no request is fired before its scheduled time" where instances arrive at their next token
// a fraction of a millisecond early, thousands of times per second.
func TestNoEarlyShotDense(t *testing.T) {
	r := vf.Start(t, "C04")
	vf.Batch(r, r.Pick(24, 240), 6, genDense, check)
}

func TestTiming(t *testing.T) {
	r := vf.Start(t, "C04")
	vf.Batch(r, r.Pick(48, 480), 48, genCase, check)
}
