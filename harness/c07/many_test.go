// C07, long files: the same model-based oracle as TestDecode over files with hundreds to thousands of cheap entries.
//
// The property speaks of "every well-formed ammo file ... in file order and wrapping around at end of file"; how many
// entries a file has is not a layout detail the formats restrict, and real ammo files are long. TestDecode's files hold
// 1-8 entries (60-200 uri lines when "big"), which is below every internal size a reader may have: scanner / bufio
// buffers counted in ENTRIES rather than bytes, caches of decoded ammo, pools, preloaded slices that grow by doubling.
// Here the entry COUNT is the generated dimension: counts at a power of two and one below / above it (63..4097) and
// free counts between 1025 and 5000, for all four formats, streamed and preloaded, through a file and (uri) through the
// inline `uris` option, read for 1-3 passes. The file is a small generated base (1-6 entries with its layout, in-file
// directives and `headers` defaults) repeated up to the count, every repeated entry made distinct by a leading path
// segment, so that a pass that ends early, late, or restarts anywhere but at entry 0 is seen at the first wrong item.
// uri / uripost files additionally get an in-file "[X-Seg: k]" line before every SegEvery-th entry: header lines
// scattered through the whole length of the file, whose values only the entries after them may carry and which must be
// forgotten at each new pass.
package c07

import (
	"fmt"
	"strconv"
	"testing"
	"time"

	ag "verif/harness/internal/ammogen"
	"verif/harness/internal/pand"
	"verif/harness/internal/provrun"
	"verif/harness/internal/vf"

	"github.com/yandex/pandora/core"
	"pgregory.net/rapid"
)

// ManyCase is kept small (the replay file holds the base, not the thousands of entries): file() expands it.
type ManyCase struct {
	Base       ag.File `json:"base"`
	Entries    int     `json:"entries"`                        // entries of the file under test
	SegEvery   int     `json:"segment_header_every,omitempty"` // uri / uripost: "[X-Seg: k]" before entry k*SegEvery (k >= 1)
	BlankEvery int     `json:"blank_line_every,omitempty"`     // an empty line before every BlankEvery-th item beyond the base
	Passes     int     `json:"passes"`
	Hold       int     `json:"held_at_once"`
	Preload    bool    `json:"preload,omitempty"`
}

var countPowers = []int{64, 128, 256, 512, 1024, 2048, 4096}

func genManyCase(t *rapid.T) ManyCase {
	// uri twice: it is the one format that is also read from the inline `uris` option
	format := rapid.SampledFrom([]string{"uri", "uri", "uripost", "raw", "jsonline"}).Draw(t, "format")
	c := ManyCase{Base: ag.Gen(t, format, ag.GenOpts{MinEntries: 1, MaxEntries: 6, BracketValues: true, ConfigHeaders: true})}
	if rapid.Bool().Draw(t, "aroundPowerOfTwo") {
		c.Entries = rapid.SampledFrom(countPowers).Draw(t, "power") + rapid.IntRange(-1, 1).Draw(t, "offBy")
	} else {
		c.Entries = rapid.IntRange(1025, 5000).Draw(t, "entries")
	}
	if format == "uri" || format == "uripost" {
		if rapid.IntRange(0, 3).Draw(t, "segHeaders") != 0 {
			c.SegEvery = rapid.SampledFrom([]int{1, 7, 64, 100, 333, 1000}).Draw(t, "segEvery")
		}
	}
	if len(c.Base.Layout.BlankBefore) > 0 {
		c.BlankEvery = rapid.SampledFrom([]int{2, 9, 50, 1000}).Draw(t, "blankEvery")
	}
	if format == "uri" && rapid.IntRange(0, 2).Draw(t, "inlineUris") == 0 {
		c.Base.Layout.Inline = true
	}
	c.Passes = rapid.SampledFrom([]int{1, 2, 2, 3}).Draw(t, "passes")
	c.Hold = rapid.SampledFrom([]int{1, 1, 2, 4}).Draw(t, "hold")
	c.Preload = rapid.IntRange(0, 2).Draw(t, "preload") == 0
	return c
}

// file expands the case: the base items are repeated in order until the file holds Entries entries.
func (c ManyCase) file() ag.File {
	f := c.Base
	base := c.Base.Items
	dirs := f.Format == "uri" || f.Format == "uripost"
	items := make([]ag.Item, 0, c.Entries+c.Entries/4+8)
	blanks := append([]int(nil), c.Base.Layout.BlankBefore...)
	entries := 0
	for i := 0; entries < c.Entries; i++ {
		it := base[i%len(base)]
		if c.BlankEvery > 0 && i >= len(base) && i%c.BlankEvery == 0 {
			blanks = append(blanks, len(items))
		}
		if it.Entry == nil {
			items = append(items, it)
			continue
		}
		if dirs && c.SegEvery > 0 && entries > 0 && entries%c.SegEvery == 0 {
			items = append(items, ag.Item{Dir: &ag.KV{K: "X-Seg", V: strconv.Itoa(entries / c.SegEvery)}})
		}
		e := *it.Entry
		if i >= len(base) {
			e.URI = "/r" + strconv.Itoa(entries) + e.URI
		}
		items = append(items, ag.Item{Entry: &e})
		entries++
	}
	f.Items = items
	f.Layout.BlankBefore = blanks
	return f
}

func powerClass(n int) (string, bool) {
	for _, p := range countPowers {
		switch n {
		case p - 1:
			return "one_below_power_of_two", true
		case p:
			return "power_of_two", true
		case p + 1:
			return "one_above_power_of_two", true
		}
	}
	return "", false
}

func checkMany(c ManyCase, o *vf.Obs) error {
	f := c.file()
	want := f.Expected()
	if len(want) != c.Entries {
		return fmt.Errorf("harness: expanded file has %d entries, case says %d", len(want), c.Entries)
	}
	where := fmt.Sprintf("%s file of %d entries (base of %d items, [X-Seg] every %d, blank every %d, inline=%v), passes=%d, preload=%v, held=%d",
		f.Format, c.Entries, len(c.Base.Items), c.SegEvery, c.BlankEvery, f.Layout.Inline, c.Passes, c.Preload, c.Hold)
	conf := map[string]any{"type": ag.ProviderType(f.Format), "passes": c.Passes}
	if f.Format == "uri" && f.Layout.Inline {
		conf["uris"] = f.Lines()
	} else {
		name := pand.WriteFile("c07many", ".ammo", f.Render())
		defer pand.Remove(name)
		conf["file"] = name
	}
	if c.Preload {
		conf["preload"] = true
	}
	if hs := f.ConfigHeaderLines(); len(hs) > 0 {
		conf["headers"] = hs
	}
	p, err := provrun.Build(conf)
	if err != nil {
		return fmt.Errorf("%s: well-formed file rejected at provider construction: %v", where, err)
	}
	total := len(want) * c.Passes
	k := 0
	res, err := provrun.DrainHeld(p, total+3, c.Hold, 60*time.Second, func(a core.Ammo) error {
		if k >= total {
			k++
			return nil
		}
		g, err := ag.Observe(a)
		if err != nil {
			return err
		}
		if err := ag.Compare(want[k%len(want)], g, extraOK); err != nil {
			return fmt.Errorf("item %d (pass %d, entry %d of %d): %v", k, k/len(want), k%len(want), len(want), err)
		}
		k++
		return nil
	})
	if err != nil {
		return fmt.Errorf("%s: %v", where, err)
	}
	if len(res.Items) != total {
		return fmt.Errorf("%s: %d items delivered, expected %d entries x %d passes = %d; Run error: %v", where, len(res.Items), len(want), c.Passes, total, res.RunErr)
	}
	if res.RunErr != nil {
		return fmt.Errorf("%s: provider.Run returned %v for a well-formed file", where, res.RunErr)
	}
	if res.Hung != "" {
		return fmt.Errorf("%s: provider did not end by itself after %d passes: %s", where, c.Passes, res.Hung)
	}
	streamed := !c.Preload
	multi := c.Passes > 1
	o.Class("many_format_" + f.Format)
	if pc, ok := powerClass(c.Entries); ok {
		o.Class("many_" + pc)
		o.Class("many_" + pc + "_" + f.Format)
		o.ClassIf(multi, "many_around_power_of_two_multi_pass")
	} else {
		o.Class("many_free_count")
	}
	o.ClassIf(c.Entries >= 255 && c.Entries <= 257, "many_255_to_257")
	o.ClassIf(c.Entries >= 1023 && c.Entries <= 1025, "many_1023_to_1025")
	o.ClassIf(c.Entries >= 4095 && c.Entries <= 4097, "many_4095_to_4097")
	o.ClassIf(c.Entries > 1024, "many_above_1024")
	o.ClassIf(c.Entries > 1024, "many_above_1024_"+f.Format)
	o.ClassIf(c.Entries > 1024 && multi && streamed, "many_above_1024_multi_pass_streamed")
	o.ClassIf(c.Entries > 1024 && multi && streamed, "many_above_1024_multi_pass_streamed_"+f.Format)
	o.ClassIf(c.Entries > 1024 && multi && c.Preload, "many_above_1024_multi_pass_preload")
	o.ClassIf(c.Entries > 1024 && multi && streamed && f.Layout.Inline, "many_above_1024_multi_pass_streamed_inline_uris")
	o.ClassIf(c.Entries > 1024 && multi && streamed && c.SegEvery > 0, "many_above_1024_multi_pass_streamed_segment_headers")
	o.ClassIf(f.Layout.Inline, "many_inline_uris")
	o.ClassIf(c.SegEvery > 0, "many_segment_headers")
	o.ClassIf(c.SegEvery > 0, "many_segment_headers_"+f.Format)
	o.ClassIf(c.BlankEvery > 0, "many_blank_lines_throughout")
	o.ClassIf(multi, "many_multi_pass")
	o.ClassIf(c.Preload, "many_preload")
	o.ClassIf(c.Hold >= 2, "many_several_ammo_held_at_once")
	o.ClassIf(f.Layout.JSON == "array", "many_json_array")
	o.ClassIf(f.Layout.JSON == "pretty", "many_json_pretty")
	o.ClassIf(f.Layout.NoFinalNL, "many_no_final_newline")
	if multi || f.Layout.LayoutKnobOn() || c.SegEvery > 0 {
		o.NonTrivial()
	}
	return nil
}

func TestDecodeMany(t *testing.T) {
	pand.Init()
	r := vf.Start(t, "C07")
	vf.Check(r, genManyCase, checkMany)
}
