package c07

import (
	"testing"

	"verif/harness/internal/pand"
	"verif/harness/internal/vf"

	"pgregory.net/rapid"
)

// FuzzModel lets Go's coverage-guided fuzzer drive the same generator and oracle as TestDecode
// (rapid.MakeFuzz turns the fuzzer's bytes into the generator's random choices), so that layouts
// which reach new decoder code are kept and mutated further. Thorough tier only.
func FuzzModel(f *testing.F) {
	pand.Init()
	f.Add([]byte{})
	f.Add([]byte{1, 2, 3, 4, 5, 6, 7, 8, 9, 10, 11, 12, 13, 14, 15, 16})
	f.Fuzz(rapid.MakeFuzz(func(t *rapid.T) {
		c := genCase(t)
		if err := vf.Guard(func() error { return check(c, &vf.Obs{}) }); err != nil {
			t.Fatalf("%v", err)
		}
	}))
}
