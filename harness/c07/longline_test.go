// C07, long lines: the same model-based oracle as TestDecode over files in which single LINES are long.
//
// The property speaks of "every well-formed ammo file": how long a line is - a URI with a query string of some
// kilobytes (search filters, signed URLs, base64 state), a cookie or bearer token in a "[Header: value]" line, a long
// tag - is not something the formats restrict below what the readers take by default (bufio.Scanner: lines below
// 64 KiB; `maxammosize`: "Maximum number of byte in jsonline ammo. Default is bufio.MaxScanTokenSize"). TestDecode and
// TestDecodeMany have files that are longer than every reader buffer, but never a single line of more than a few
// hundred bytes (only bodies, which are read by size), so a reader that takes a line in pieces, cuts it at its buffer
// size or looks for the line end only within one buffer is judged on nothing. Here the LENGTH OF A PHYSICAL LINE is
// the generated dimension: a small generated base (1-6 entries with its layout, in-file directives and `headers`
// defaults) gets 1-3 "long spots" - the query or the path of an entry, its tag, a new "[Name: value]" line in front of
// an item (uri / uripost), a header value (raw / http-json), a one-line body - that bring the physical line (uri
// entry line, uripost / raw size line, directive line) exactly to a drawn length, or give the element that length:
// 4095-4097 and other lengths at and one off the multiples of 4096, free lengths up to 65000 (below the 64 KiB a
// scanner takes by default). http/json objects may also exceed 64 KiB when `maxammosize` is raised above them.
// `maxammosize` is unset in three cases of five and otherwise set ABOVE everything in the file, where it rules nothing
// out. All four formats (uri three times as often, one uri case in four through the inline `uris` option), streamed
// and preloaded, 1-3 passes, 1-4 ammo held at once; one spot in three is on the LAST entry (long line + missing final
// newline).
package c07

import (
	"bytes"
	"fmt"
	"net/textproto"
	"sort"
	"strings"
	"testing"

	ag "verif/harness/internal/ammogen"
	"verif/harness/internal/pand"
	"verif/harness/internal/vf"

	"pgregory.net/rapid"
)

// LongSpot makes one element of the base file long.
type LongSpot struct {
	// Item indexes Base.Items: the entry that is made long, or (Where == "directive") the item in front of which a
	// new "[Name: value]" line is put.
	Item int `json:"item"`
	// Where: query | path | tag | directive | header | body
	Where string `json:"where"`
	// Len: where the element lies on a line of the line-oriented framing (uri entry line, uripost size line, raw size
	// line for a tag, directive line) the length of that physical line as rendered (padding included, line end not);
	// otherwise (raw request line / header / body, uripost body, everything in http/json) the length of the element
	// (URI, tag, header value, body).
	Len  int    `json:"len"`
	Fill string `json:"fill"`
	Name string `json:"name,omitempty"` // directive / header name
}

// LongCase is kept small (the replay file holds the base and the spots, not the long lines): file() expands it.
type LongCase struct {
	Base        ag.File    `json:"base"`
	Spots       []LongSpot `json:"long_spots"`
	Passes      int        `json:"passes"`
	Hold        int        `json:"held_at_once"`
	Preload     bool       `json:"preload,omitempty"`
	MaxAmmoSize int        `json:"maxammosize,omitempty"`
}

// the default token limit of bufio.Scanner (bufio.MaxScanTokenSize); every physical line stays below it with room for
// the line end, unless (http/json) `maxammosize` is raised
const scanTokenSize = 64 * 1024
const longMaxLine = 65000 + 8
const longMaxElem = 60000 // raw / uripost / http-json elements: room for what surrounds them on their line / in their object

// lengths at, one below and one above the multiples of 4096 that matter to 4 KiB buffers, and free ones
var longLens = []int{4096, 4097, 4098, 4100, 4200, 5000, 8191, 8192, 8193, 8200, 10000, 12288, 12289, 16384, 16385, 20000, 32768, 32769, 40000, 65000}
var longLensJSONBig = []int{70000, 100000, 131072}

var longNames = []string{"Cookie", "Authorization", "X-Long", "X-Token"}

// fills: characters net/url transmits verbatim (query / path), visible ASCII with inner single blanks (tag, header value)
var longFillsURI = []string{"a", "0123456789", "ab%20", "k=v&", "x-_.~"}
var longFillsText = []string{"a", "0123456789", "word ", "tok=abc; ", "[x]:"}

func genLongCase(t *rapid.T) LongCase {
	format := rapid.SampledFrom([]string{"uri", "uri", "uri", "uripost", "raw", "jsonline"}).Draw(t, "format")
	c := LongCase{Base: ag.Gen(t, format, ag.GenOpts{MinEntries: 1, MaxEntries: 6, BracketValues: true, ConfigHeaders: true})}
	f := &c.Base
	if format == "uri" {
		// the `uris` option reads the same lines through the same decoder from memory
		f.Layout.Inline = rapid.IntRange(0, 3).Draw(t, "inlineUris") == 0
	}
	var entryIdx []int
	for i, it := range f.Items {
		if it.Entry != nil {
			entryIdx = append(entryIdx, i)
		}
	}
	lineFramed := format == "uri" || format == "uripost"
	nSpots := rapid.SampledFrom([]int{1, 1, 1, 2, 2, 3}).Draw(t, "longSpots")
	for k := 0; k < nSpots; k++ {
		s := LongSpot{}
		switch format {
		case "uri":
			s.Where = rapid.SampledFrom([]string{"query", "query", "query", "query", "path", "tag", "directive", "directive"}).Draw(t, "where")
		case "uripost":
			s.Where = rapid.SampledFrom([]string{"query", "query", "query", "path", "tag", "directive", "directive", "body"}).Draw(t, "where")
		case "raw":
			s.Where = rapid.SampledFrom([]string{"tag", "tag", "query", "query", "header", "header", "body"}).Draw(t, "where")
		default:
			s.Where = rapid.SampledFrom([]string{"query", "query", "tag", "header", "header", "body"}).Draw(t, "where")
		}
		if s.Where == "directive" {
			s.Item = rapid.IntRange(0, len(f.Items)-1).Draw(t, "directiveBefore")
		} else if rapid.IntRange(0, 2).Draw(t, "onLastEntry") == 0 {
			s.Item = entryIdx[len(entryIdx)-1]
		} else {
			s.Item = rapid.SampledFrom(entryIdx).Draw(t, "longEntryAt")
		}
		if s.Where == "body" && format == "raw" {
			if m := f.Items[s.Item].Entry.Method; m == "GET" || m == "HEAD" {
				s.Where = "query" // the generator gives these no body
			}
		}
		s.Len = rapid.SampledFrom(longLens).Draw(t, "longLen") + rapid.IntRange(-1, 1).Draw(t, "longJitter")
		if format == "jsonline" && rapid.IntRange(0, 3).Draw(t, "jsonAbove64k") == 0 {
			// an object above the default limit: generated only together with a `maxammosize` above it (below)
			s.Len = rapid.SampledFrom(longLensJSONBig).Draw(t, "longLenBig") + rapid.IntRange(-1, 1).Draw(t, "longJitter")
		} else if !(lineFramed && s.Where != "body") && !(format == "raw" && s.Where == "tag") {
			s.Len = min(s.Len, longMaxElem)
		}
		switch s.Where {
		case "query", "path":
			s.Fill = rapid.SampledFrom(longFillsURI).Draw(t, "fillURI")
		default:
			s.Fill = rapid.SampledFrom(longFillsText).Draw(t, "fillText")
		}
		if s.Where == "directive" || s.Where == "header" {
			s.Name = rapid.SampledFrom(longNames).Draw(t, "longName")
		}
		c.Spots = append(c.Spots, s)
	}
	c.Passes = rapid.SampledFrom([]int{1, 2, 2, 3}).Draw(t, "passes")
	c.Hold = rapid.SampledFrom([]int{1, 1, 2, 4}).Draw(t, "hold")
	c.Preload = rapid.Bool().Draw(t, "preload")
	// `maxammosize`: unset, or above everything in the file. The unit it is above: the longest physical line for uri
	// (one line = one ammo), the whole file for the other formats (an ammo spans lines there; whatever a reader counts
	// as "the ammo", it is not more than the file).
	unit := longUnit(c.file())
	kind := rapid.IntRange(0, 4).Draw(t, "maxammosize")
	if format == "jsonline" && unit >= longMaxLine-8 && kind < 3 {
		kind = 3 + kind%2
	}
	switch kind {
	case 3:
		c.MaxAmmoSize = unit + rapid.SampledFrom([]int{2, 3, 100, 4096}).Draw(t, "maxammosizeJustAbove")
	case 4:
		c.MaxAmmoSize = rapid.SampledFrom([]int{2 * unit, unit + scanTokenSize, max(1<<20, 2*unit)}).Draw(t, "maxammosizeFarAbove")
	}
	return c
}

// longUnit: see genLongCase (what `maxammosize`, when set, is set above).
func longUnit(f ag.File) int {
	if f.Format == "uri" {
		return longestLine(f)
	}
	return len(f.Render())
}

// longestLine is the length of the longest physical line of the file as the provider gets it (line ends not counted).
func longestLine(f ag.File) int {
	m := 0
	if f.Format == "uri" && f.Layout.Inline {
		for _, l := range f.Lines() {
			m = max(m, len(l))
		}
		return m
	}
	for _, l := range bytes.Split(f.Render(), []byte("\n")) {
		m = max(m, len(bytes.TrimSuffix(l, []byte("\r"))))
	}
	return m
}

// firstLineLen is the length of the first physical line the item renders to under the file's layout: the uri entry
// line, the uripost / raw size line, the directive line.
func firstLineLen(f ag.File, it ag.Item) int {
	one := ag.File{Format: f.Format, Items: []ag.Item{it}, Layout: ag.Layout{Pad: f.Layout.Pad, Inline: f.Layout.Inline, NoFinalNL: true}}
	if f.Format == "uri" && f.Layout.Inline {
		return len(one.Lines()[0])
	}
	b := one.Render()
	if i := bytes.IndexByte(b, '\n'); i >= 0 {
		b = b[:i]
	}
	return len(b)
}

// fill is n bytes of the repeated pattern whose end is neither blank nor a cut percent-escape nor a separator.
func fill(pattern string, n int) string {
	if n <= 0 {
		return ""
	}
	b := []byte(strings.Repeat(pattern, n/len(pattern)+1)[:n])
	for i := max(0, n-2); i < n; i++ {
		if b[i] == '%' {
			for j := i; j < n; j++ {
				b[j] = 'z'
			}
			break
		}
	}
	if last := b[n-1]; last == ' ' || last == '\t' || last == ';' || last == '&' {
		b[n-1] = 'z'
	}
	return string(b)
}

// file expands the case.
func (c LongCase) file() ag.File {
	f := c.Base
	f.Items = append([]ag.Item(nil), c.Base.Items...)
	lineFramed := f.Format == "uri" || f.Format == "uripost"
	// how many bytes the spot adds: up to the target length of the physical line, or the element's length
	// (several spots on one line / element do not add up: each brings it up to its own length)
	deficit := func(s LongSpot, it ag.Item) int {
		onLine := (lineFramed && s.Where != "body") || (f.Format == "raw" && s.Where == "tag")
		if onLine {
			return min(s.Len, longMaxLine) - firstLineLen(f, it)
		}
		switch s.Where {
		case "query", "path":
			return s.Len - len(it.Entry.URI)
		case "tag":
			return s.Len - len(it.Entry.Tag)
		}
		return s.Len // header value, body: replaced
	}
	for _, s := range c.Spots {
		if s.Where == "directive" || s.Item >= len(f.Items) || f.Items[s.Item].Entry == nil {
			continue
		}
		e := *f.Items[s.Item].Entry
		e.Headers = append([]ag.KV(nil), e.Headers...)
		n := deficit(s, ag.Item{Entry: &e})
		switch s.Where {
		case "query":
			if n < 4 {
				continue
			}
			sep := "?q="
			if strings.Contains(e.URI, "?") {
				sep = "&q="
			}
			e.URI += sep + fill(s.Fill, n-3)
		case "path":
			if n < 2 {
				continue
			}
			e.URI = "/" + fill(s.Fill, n-1) + e.URI
		case "tag":
			if n < 2 {
				continue
			}
			if e.Tag == "" {
				if lineFramed || f.Format == "raw" {
					n-- // the blank that delimits the tag
				}
				e.Tag = fill(s.Fill, n)
			} else {
				e.Tag += " " + fill(s.Fill, n-1)
			}
		case "header":
			v := fill(s.Fill, n)
			found := false
			for i, h := range e.Headers {
				if textproto.CanonicalMIMEHeaderKey(h.K) == textproto.CanonicalMIMEHeaderKey(s.Name) {
					e.Headers[i].V, found = v, true
				}
			}
			if !found {
				e.Headers = append(e.Headers, ag.KV{K: s.Name, V: v})
			}
		case "body":
			e.Body = []byte(fill(s.Fill, n))
		}
		f.Items[s.Item] = ag.Item{Entry: &e}
	}
	if lineFramed {
		// new "[Name: value]" lines, from the back so that the indexes of the spots stay those of the base
		dirs := []LongSpot{}
		for _, s := range c.Spots {
			if s.Where == "directive" && s.Item < len(f.Items) {
				dirs = append(dirs, s)
			}
		}
		sort.SliceStable(dirs, func(i, j int) bool { return dirs[i].Item > dirs[j].Item })
		shift := func(at int) {
			bb := append([]int(nil), f.Layout.BlankBefore...)
			for i := range bb {
				if bb[i] >= at {
					bb[i]++
				}
			}
			f.Layout.BlankBefore = bb
		}
		for _, s := range dirs {
			d := ag.Item{Dir: &ag.KV{K: s.Name, V: "v"}}
			n := deficit(s, d)
			if n < 1 {
				continue
			}
			d.Dir.V = "v" + fill(s.Fill, n)
			items := append([]ag.Item(nil), f.Items[:s.Item]...)
			items = append(items, d)
			f.Items = append(items, f.Items[s.Item:]...)
			shift(s.Item)
		}
	}
	return f
}

// trimMsg keeps failure messages readable: the quoted lines of a long-line case are tens of kilobytes.
func trimMsg(err error) string {
	s := err.Error()
	if len(s) > 1500 {
		s = s[:1500] + " ...(truncated; the replay file holds the whole case)"
	}
	return s
}

func checkLong(c LongCase, o *vf.Obs) error {
	f := c.file()
	L := longestLine(f)
	U := longUnit(f)
	if f.Format != "jsonline" && L > longMaxLine {
		return fmt.Errorf("harness: generated line of %d bytes, meant to stay at or below %d", L, longMaxLine)
	}
	if f.Format == "jsonline" && U >= longMaxLine-8 && c.MaxAmmoSize == 0 {
		return fmt.Errorf("harness: http/json file of %d bytes generated without a maxammosize above it", U)
	}
	if c.MaxAmmoSize != 0 && c.MaxAmmoSize < U+2 {
		return fmt.Errorf("harness: maxammosize %d is not above the longest unit (%d bytes)", c.MaxAmmoSize, U)
	}
	// the oracle of TestDecode, unchanged: the model the file was rendered from judges every item of every pass
	inner := Case{File: f, Passes: c.Passes, Hold: c.Hold, Preload: c.Preload, MaxAmmoSize: c.MaxAmmoSize}
	if err := check(inner, &vf.Obs{}); err != nil {
		return fmt.Errorf("%s file, longest physical line %d bytes (file %d bytes), inline=%v, maxammosize=%d, passes=%d: %s",
			f.Format, L, len(f.Render()), f.Layout.Inline, c.MaxAmmoSize, c.Passes, trimMsg(err))
	}

	// what became long
	const buf = 4096 // bufio's default buffer size: a line above it does not fit a reader's buffer in one piece
	longEntryLine, longDirLine, lastLong := 0, 0, false
	where := map[string]bool{}
	entries := 0
	for i, it := range f.Items {
		if it.Entry != nil {
			entries++
		}
		if f.Format == "uri" || f.Format == "uripost" || f.Format == "raw" {
			n := firstLineLen(f, it)
			if it.Dir != nil {
				longDirLine = max(longDirLine, n)
			} else {
				longEntryLine = max(longEntryLine, n)
			}
			if n > buf && i == len(f.Items)-1 {
				lastLong = true
			}
		}
	}
	for _, s := range c.Spots {
		where[s.Where] = true
	}
	isLong := L > buf
	multi := c.Passes > 1
	o.Class("long_format_" + f.Format)
	o.ClassIf(isLong, "long_line_above_4096")
	o.ClassIf(isLong, "long_line_above_4096_"+f.Format)
	o.ClassIf(L == buf-1 || L == buf, "long_line_4095_or_4096")
	o.ClassIf(L > buf && L <= 4200, "long_line_4097_to_4200")
	o.ClassIf(L > 4200 && L < 2*buf, "long_line_4201_to_8191")
	o.ClassIf(L >= 2*buf && L < 32768, "long_line_8k_to_32k")
	o.ClassIf(L >= 32768 && L < scanTokenSize, "long_line_32k_to_64k")
	o.ClassIf(L > buf && L%buf <= 1, "long_line_at_or_one_above_multiple_of_4096")
	// the framing lines themselves (uri entry line, uripost / raw size line, "[Name: value]" line)
	o.ClassIf(longEntryLine > buf, "long_entry_line")
	o.ClassIf(longEntryLine > buf, "long_entry_line_"+f.Format)
	o.ClassIf(longDirLine > buf, "long_directive_line")
	o.ClassIf(longDirLine > buf, "long_directive_line_"+f.Format)
	uriLong := f.Format == "uri" && longEntryLine > buf
	o.ClassIf(uriLong && !f.Layout.Inline, "long_uri_line_file")
	o.ClassIf(uriLong && f.Layout.Inline, "long_uri_line_inline_uris")
	o.ClassIf(uriLong && !c.Preload, "long_uri_line_streamed")
	o.ClassIf(uriLong && c.Preload, "long_uri_line_preload")
	o.ClassIf(uriLong && multi, "long_uri_line_multi_pass")
	o.ClassIf(uriLong && entries >= 2, "long_uri_line_among_several_entries")
	o.ClassIf(isLong && lastLong, "long_last_line")
	o.ClassIf(isLong && lastLong && f.Layout.NoFinalNL && f.Layout.TrailBlank == 0, "long_last_line_unterminated")
	o.ClassIf(isLong && f.Layout.CRLF, "long_crlf")
	o.ClassIf(isLong && f.Layout.Pad, "long_padded_lines")
	o.ClassIf(isLong && multi, "long_multi_pass")
	o.ClassIf(isLong && c.Preload, "long_preload")
	o.ClassIf(isLong && c.Hold >= 2, "long_several_ammo_held_at_once")
	o.ClassIf(isLong && len(c.Spots) >= 2, "long_several_spots")
	for _, w := range []string{"query", "path", "tag", "directive", "header", "body"} {
		o.ClassIf(isLong && where[w], "long_"+w)
	}
	o.ClassIf(f.Format == "jsonline" && U >= scanTokenSize, "long_json_above_64k_maxammosize_raised")
	o.ClassIf(f.Format == "jsonline" && isLong && f.Layout.JSON == "array", "long_json_array")
	o.ClassIf(f.Format == "jsonline" && isLong && f.Layout.JSON == "pretty", "long_json_pretty")
	o.ClassIf(c.MaxAmmoSize == 0, "long_maxammosize_unset")
	o.ClassIf(c.MaxAmmoSize > 0, "long_maxammosize_above")
	o.ClassIf(c.MaxAmmoSize > 0, "long_maxammosize_above_"+f.Format)
	o.ClassIf(c.MaxAmmoSize > 0 && c.MaxAmmoSize <= U+3, "long_maxammosize_just_above")
	if isLong && (entries >= 2 || multi) {
		o.NonTrivial()
	}
	return nil
}

func TestDecodeLongLines(t *testing.T) {
	pand.Init()
	r := vf.Start(t, "C07")
	vf.Check(r, genLongCase, checkLong)
}
