// C07 — ammo decoding fidelity for the uri, uripost, raw and http/json formats.
//
// Oracle: the model the file was rendered from (internal/ammogen); metamorphic:
// layout the formats permit never changes the delivered sequence.
package c07

import (
	"fmt"
	"net/textproto"
	"sort"
	"strings"
	"testing"
	"time"

	ag "verif/harness/internal/ammogen"
	"verif/harness/internal/pand"
	"verif/harness/internal/provrun"
	"verif/harness/internal/vf"

	"github.com/yandex/pandora/core"
	"pgregory.net/rapid"
)

type Case struct {
	File   ag.File `json:"file"`
	Passes int     `json:"passes"`
	Hold   int     `json:"held_at_once"` // the consumer acquires this many ammo before it reads any of them
	// Preload: the provider option `preload: true` (docs/eng/providers.md, "HTTP Ammo preloaded": "the provider will load the ammo file into memory") - the file is
	// read into memory once and replayed from there; what is delivered is the same file content, pass after pass
	Preload bool `json:"preload,omitempty"`
	// MaxAmmoSize: the provider option `maxammosize` ("Maximum number of byte in jsonline ammo. Default is
	// bufio.MaxScanTokenSize"), 0 = not set. Only TestDecodeLongLines sets it, and only to values above everything in
	// the file: a limit that nothing in the file reaches rules nothing out.
	MaxAmmoSize int `json:"maxammosize,omitempty"`
}

func genCase(t *rapid.T) Case {
	format := rapid.SampledFrom([]string{"uri", "uripost", "raw", "jsonline"}).Draw(t, "format")
	c := Case{File: ag.Gen(t, format, ag.GenOpts{MinEntries: 1, MaxEntries: 8, AllowBig: true,
		// header values with brackets and colons anywhere (also at the very ends); default headers through the `headers` option
		BracketValues: true, ConfigHeaders: true})}
	c.Passes = rapid.IntRange(1, 3).Draw(t, "passes")
	c.Hold = rapid.SampledFrom([]int{1, 1, 2, 4}).Draw(t, "hold")
	c.Preload = rapid.Bool().Draw(t, "preload")
	return c
}

var extraOK = map[string]bool{"Content-Length": true}

func check(c Case, o *vf.Obs) error {
	f := c.File
	want := f.Expected()
	conf := map[string]any{"type": ag.ProviderType(f.Format), "passes": c.Passes}
	var name string
	if f.Format == "uri" && f.Layout.Inline {
		conf["uris"] = f.Lines()
	} else {
		name = pand.WriteFile("c07", ".ammo", f.Render())
		defer pand.Remove(name)
		conf["file"] = name
	}
	if c.Preload {
		conf["preload"] = true
	}
	if c.MaxAmmoSize > 0 {
		conf["maxammosize"] = c.MaxAmmoSize
	}
	if hs := f.ConfigHeaderLines(); len(hs) > 0 {
		// docs/eng/providers.md: "You can define common headers using special config option `headers`. Headers in ammo
		// file have priority. Format: list of strings" - the effective headers of an entry are the file's plus these defaults
		conf["headers"] = hs
	}
	p, err := provrun.Build(conf)
	if err != nil {
		return fmt.Errorf("well-formed %s ammo file rejected at provider construction (preload=%v): %v\n%s", f.Format, c.Preload, err, f.Render())
	}
	total := len(want) * c.Passes
	k := 0
	res, err := provrun.DrainHeld(p, total+3, c.Hold, 20*time.Second, func(a core.Ammo) error {
		if k >= total {
			k++
			return nil
		}
		g, err := ag.Observe(a)
		if err != nil {
			return err
		}
		w := want[k%len(want)]
		if err := ag.Compare(w, g, extraOK); err != nil {
			return fmt.Errorf("preload=%v: item %d (pass %d, entry %d of %d): %v", c.Preload, k, k/len(want), k%len(want), len(want), err)
		}
		// what an instance does with the ammo before it releases it: the built-in gun points req.URL at its target;
		// an entry that is delivered again (next pass of a preloaded or array file, a pooled ammo object) must not
		// remember that
		ag.ShootLikeGun(a, k%2 == 1, "127.0.0.9:8080")
		k++
		return nil
	})
	if err != nil {
		return fmt.Errorf("%v\n--- file (%s) ---\n%q", err, f.Format, f.Render())
	}
	if len(res.Items) != total {
		return fmt.Errorf("preload=%v: %d items delivered, the file holds %d entries and passes=%d (expected %d); Run error: %v\n--- file (%s) ---\n%q",
			c.Preload, len(res.Items), len(want), c.Passes, total, res.RunErr, f.Format, f.Render())
	}
	if res.RunErr != nil {
		return fmt.Errorf("preload=%v: provider.Run returned %v for a well-formed file\n%q", c.Preload, res.RunErr, f.Render())
	}
	if res.Hung != "" {
		return fmt.Errorf("preload=%v: provider did not end by itself after %d passes: %s", c.Preload, c.Passes, res.Hung)
	}
	ents := f.Entries()
	binary, zeroBody, tagRun, tagTab := false, false, false, false
	for _, e := range ents {
		if ag.HasBlankRun(e.Tag) {
			tagRun = true
			tagTab = tagTab || strings.Contains(e.Tag, "\t")
		}
		for _, b := range e.Body {
			if b < 0x20 || b > 0x7e {
				binary = true
			}
		}
		if len(e.Body) == 0 {
			zeroBody = true
		}
	}
	o.Class("format_" + f.Format)
	extMethod := false
	for _, e := range f.Entries() {
		extMethod = extMethod || ag.ExtensionMethod(e.Method)
	}
	o.ClassIf(extMethod, "extension_method")
	o.ClassIf(extMethod && f.Format == "jsonline", "extension_method_jsonline")
	o.ClassIf(extMethod && f.Format == "raw", "extension_method_raw")
	o.ClassIf(f.Layout.NoFinalNL, "no_final_newline")
	o.ClassIf(f.Layout.CRLF, "crlf")
	o.ClassIf(f.Layout.Pad, "padded_lines")
	o.ClassIf(f.Layout.Inline, "inline_uris")
	o.ClassIf(len(f.Layout.BlankBefore) > 0 || f.Layout.LeadBlank > 0 || f.Layout.TrailBlank > 0, "blank_lines")
	o.ClassIf(f.MidFileDirective(), "mid_file_directive")
	o.ClassIf(zeroBody && (f.Format == "uripost"), "uripost_zero_body")
	o.ClassIf(binary, "binary_body")
	o.ClassIf(f.Layout.JSON == "array", "json_array")
	o.ClassIf(f.Layout.JSON == "pretty", "json_pretty")
	o.ClassIf(c.Passes > 1, "multi_pass")
	o.ClassIf(c.Hold >= 2, "several_ammo_held_at_once")
	o.ClassIf(f.Big, "file_larger_than_reader_buffer")
	// the file is read through the preloading path (one LoadAmmo pass, then replay from memory), per format / layout
	o.ClassIf(c.Preload, "preload")
	o.ClassIf(c.Preload, "preload_"+f.Format)
	o.ClassIf(c.Preload && f.Layout.JSON == "array", "preload_json_array")
	o.ClassIf(c.Preload && f.Layout.JSON == "pretty", "preload_json_pretty")
	o.ClassIf(c.Preload && c.Passes > 1, "preload_multi_pass")
	o.ClassIf(c.Preload && f.Layout.NoFinalNL, "preload_no_final_newline")
	o.ClassIf(c.Preload && f.MidFileDirective(), "preload_mid_file_directive")
	o.ClassIf(c.Preload && f.Layout.Inline, "preload_inline_uris")
	o.ClassIf(c.Preload && c.Hold >= 2, "preload_several_ammo_held_at_once")
	// a tag whose words are separated by more than one space, or by tabs: tag text, delivered as written
	o.ClassIf(tagRun, "tag_inner_blank_run")
	o.ClassIf(tagRun, "tag_inner_blank_run_"+f.Format)
	o.ClassIf(tagTab, "tag_inner_tab")
	if len(ents) >= 2 && (f.Layout.LayoutKnobOn() || f.MidFileDirective() || binary) {
		o.NonTrivial()
	}
	classifyHeaderValues(f, want, o)
	// last entry of a uripost file has an empty body and the file lacks a final newline
	if f.Format == "uripost" && f.Layout.NoFinalNL && f.Layout.TrailBlank == 0 {
		if it := f.Items[len(f.Items)-1]; it.Entry != nil && len(it.Entry.Body) == 0 {
			o.Class("uripost_last_line_unterminated")
		}
	}
	return nil
}

// classifyHeaderValues labels the shapes of "[Name: value]" values (in-file directives, the `headers` option) and of the
// entries' own header values that were judged: brackets at the very ends of a value, colons inside it, bracketed IPv6 hosts.
// A directive / default counts only when its value is what the model expects some entry to carry (it is in effect somewhere).
// classSet collects the labels of one case, each at most once.
type classSet map[string]bool

func (s classSet) ClassIf(cond bool, name string) {
	if cond {
		s[name] = true
	}
}

func (s classSet) emit(o *vf.Obs) {
	names := make([]string, 0, len(s))
	for n := range s {
		names = append(names, n)
	}
	sort.Strings(names)
	o.Class(names...)
}

func classifyHeaderValues(f ag.File, want []ag.Want, obs *vf.Obs) {
	o := classSet{}
	defer o.emit(obs)
	inEffect := func(h ag.KV) bool {
		k := textproto.CanonicalMIMEHeaderKey(h.K)
		for _, w := range want {
			if k == "Host" && w.Host == h.V || k != "Host" && w.Headers[k] == h.V {
				return true
			}
		}
		return false
	}
	shape := func(src string, h ag.KV) {
		if !inEffect(h) {
			return
		}
		v := h.V
		host := textproto.CanonicalMIMEHeaderKey(h.K) == "Host"
		o.ClassIf(strings.HasSuffix(v, "]"), src+"_value_ends_with_bracket")
		o.ClassIf(strings.HasSuffix(v, "]"), src+"_value_ends_with_bracket_"+f.Format)
		o.ClassIf(strings.HasSuffix(v, "]]"), src+"_value_ends_with_bracket_run")
		o.ClassIf(strings.HasPrefix(v, "["), src+"_value_starts_with_bracket")
		o.ClassIf(strings.HasPrefix(v, "[") && strings.HasSuffix(v, "]"), src+"_value_bracketed_at_both_ends")
		o.ClassIf(strings.ContainsAny(v, "[]") && !strings.HasSuffix(v, "]") && !strings.HasPrefix(v, "["), src+"_value_brackets_inside_only")
		o.ClassIf(!host && strings.Contains(v, ":"), src+"_value_with_colon")
		o.ClassIf(host && strings.HasPrefix(v, "["), src+"_host_ipv6_literal")
		o.ClassIf(host && strings.HasPrefix(v, "[") && strings.HasSuffix(v, "]"), src+"_host_ipv6_literal_without_port")
	}
	for _, it := range f.Items {
		if it.Dir != nil {
			shape("directive", *it.Dir)
		}
	}
	for _, h := range f.ConfHeaders {
		shape("config_header", h)
	}
	o.ClassIf(len(f.ConfHeaders) > 0, "config_headers")
	o.ClassIf(len(f.ConfHeaders) > 0, "config_headers_"+f.Format)
	// a default that the file overrides for some entries (a directive / own header of the same name, an own Host) and
	// that is in effect for others
	for _, h := range f.ConfHeaders {
		k := textproto.CanonicalMIMEHeaderKey(h.K)
		on, off := 0, 0
		for _, w := range want {
			if k == "Host" && w.Host == h.V || k != "Host" && w.Headers[k] == h.V {
				on++
			} else {
				off++
			}
		}
		o.ClassIf(on > 0 && off > 0, "config_header_overridden_for_some_entries")
		o.ClassIf(on == 0, "config_header_overridden_everywhere")
	}
	for _, e := range f.Entries() {
		for _, h := range e.Headers {
			o.ClassIf(strings.HasSuffix(h.V, "]"), "entry_header_value_ends_with_bracket")
		}
		o.ClassIf(strings.HasPrefix(e.Host, "["), "entry_host_ipv6_literal")
	}
}

func TestDecode(t *testing.T) {
	pand.Init()
	r := vf.Start(t, "C07")
	vf.Check(r, genCase, check)
}
