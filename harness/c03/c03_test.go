// C03 — engine shot accounting: one shot or one discard per token and ammo item.
//
// Oracle: conservation laws over the recorded history of the doubles.
package c03

import (
	"context"
	"fmt"
	"math"
	"sync"
	"testing"
	"time"

	"verif/harness/internal/fake"
	"verif/harness/internal/pand"
	sg "verif/harness/internal/schedgen"
	"verif/harness/internal/vf"

	"github.com/yandex/pandora/core"
	"github.com/yandex/pandora/core/engine"
	"github.com/yandex/pandora/core/schedule"
	"pgregory.net/rapid"
)

type Case struct {
	Instances   int     `json:"instances"`
	Startup     string  `json:"startup"` // once | const | istep
	PerInstance bool    `json:"rps_per_instance"`
	Profile     sg.Node `json:"profile"`
	PastMs      int     `json:"profile_started_ms_ago"`
	Ammo        int     `json:"ammo"` // <0 unbounded
	Discard     bool    `json:"discard_overflow"`
	ShotUs      []int   `json:"shot_us"`
	AcquireUs   int     `json:"acquire_us"`
	Queue       int     `json:"queue"`
	AfterLast   string  `json:"provider_after_last"`
	Repeat      int     `json:"repeat"`
	// ViaConfig: the pool's schedule factory is what config decoding produces from the profile's config map (as in a
	// real run: one decoded section, the factory called once per instance with rps-per-instance), not a constructor call.
	ViaConfig bool `json:"profile_via_config"`
	// StartupMs: length of a const startup profile (default 4 ms)
	StartupMs int `json:"startup_ms,omitempty"`
	// Shape: set by genSparse (TestSparseProfiles): the profile runs in real time and has tokens that are seconds apart;
	// every schedule object is wrapped so that "how far ahead was a token when it was handed out" is measured.
	Shape string `json:"sparse_shape,omitempty"`
	// Times > 1 (genContended): Profile is a list and the profile that is run is that list written Times times in a
	// row (`rps: [a, b, a, b, ...]`): see effProfile. Contended names the shape of such a profile of many small parts.
	Times     int    `json:"profile_times,omitempty"`
	Contended string `json:"contended_shape,omitempty"`
	// Yield (TestBoundaryContention): the instances' goroutines give up the processor (runtime.Gosched) at the points of
	// the composite schedule where no lock is held (hook schedule.VerifYield of the verif build): "upgrade" = between
	// dropping the read lock and taking the write lock in Next / Left, "all" = also on entry to Next / Left. Every
	// interleaving this produces is one the Go scheduler may produce by itself; it makes the ones where several
	// instances are between the two locks at once frequent even on a machine with few free processors.
	Yield string `json:"yield,omitempty"`
}

// effProfile is the profile the case runs: c.Profile, or its parts repeated c.Times times as one flat list.
func effProfile(c Case) sg.Node {
	if c.Times <= 1 || c.Profile.Kind != "composite" {
		return c.Profile
	}
	n := sg.Node{Kind: "composite", Children: make([]sg.Node, 0, c.Times*len(c.Profile.Children))}
	for i := 0; i < c.Times; i++ {
		n.Children = append(n.Children, c.Profile.Children...)
	}
	return n
}

var profOpts = sg.Opts{MaxDepth: 2, MaxChildren: 4, MaxLeafTok: 25, MinDur: time.Millisecond, MaxDur: 8 * time.Millisecond}

// genGradual: instances are still being started (const startup over 20-50 ms) while a paced shared profile (one token
// every few ms, started now) hands out tokens and a small ammo supply runs out: at that moment other instances hold an
// ammo item while they wait for their token's time.
func genGradual(t *rapid.T) Case {
	c := Case{Startup: "const", Repeat: 3, AfterLast: "return"}
	c.Instances = rapid.IntRange(2, 6).Draw(t, "instances")
	c.StartupMs = rapid.IntRange(20, 50).Draw(t, "startupMs")
	d := int64(rapid.IntRange(30, 80).Draw(t, "profileMs")) * int64(time.Millisecond)
	tok := rapid.IntRange(8, 25).Draw(t, "tokens")
	c.Profile = sg.Node{Kind: "const", From: (float64(tok) + 0.25) / (float64(d) / 1e9), DurNs: d}
	c.PerInstance = rapid.IntRange(0, 3).Draw(t, "perInstance") == 0
	c.Ammo = rapid.IntRange(1, c.Instances+4).Draw(t, "ammo")
	c.Discard = rapid.Bool().Draw(t, "discard")
	c.ShotUs = []int{rapid.SampledFrom([]int{0, 50, 500}).Draw(t, "shotUs")}
	c.Queue = rapid.SampledFrom([]int{0, 1, 64}).Draw(t, "queue")
	return c
}

func genCase(t *rapid.T) Case {
	if rapid.IntRange(0, 3).Draw(t, "gradual") == 0 {
		return genGradual(t)
	}
	c := Case{}
	c.Instances = rapid.IntRange(1, 8).Draw(t, "instances")
	c.Startup = rapid.SampledFrom([]string{"once", "once", "const", "istep"}).Draw(t, "startup")
	c.PerInstance = rapid.Bool().Draw(t, "perInstance")
	c.Profile = sg.GenTree(t, profOpts, 0)
	c.PastMs = rapid.SampledFrom([]int{0, 0, 1900, 2100, 2500, 3000}).Draw(t, "past")
	T := 0
	for _, l := range sg.Flatten(c.Profile) {
		_ = l
	}
	parts, _, tot, err := sg.Chain(sg.Flatten(c.Profile), time.Unix(1, 0))
	_ = parts
	if err == nil {
		T = tot
	}
	full := T
	if c.PerInstance {
		full = T * c.Instances
	}
	switch rapid.IntRange(0, 4).Draw(t, "ammoKind") {
	case 0:
		c.Ammo = -1
	case 1:
		c.Ammo = rapid.IntRange(0, full+c.Instances+2).Draw(t, "ammo")
	case 2:
		c.Ammo = full
	case 3:
		c.Ammo = full + rapid.IntRange(0, c.Instances).Draw(t, "extra")
	default:
		c.Ammo = rapid.IntRange(0, max(1, full)).Draw(t, "ammoLess")
	}
	c.Discard = rapid.Bool().Draw(t, "discard")
	c.ShotUs = rapid.SliceOfN(rapid.SampledFrom([]int{0, 0, 50, 1000}), 1, 4).Draw(t, "shotUs")
	c.AcquireUs = rapid.SampledFrom([]int{0, 0, 20, 200}).Draw(t, "acquireUs")
	c.Queue = rapid.SampledFrom([]int{0, 1, 64}).Draw(t, "queue")
	c.AfterLast = rapid.SampledFrom([]string{"return", "wait_ctx"}).Draw(t, "afterLast")
	c.Repeat = 3
	c.ViaConfig = sg.ConfigOK(c.Profile) && rapid.Bool().Draw(t, "viaConfig")
	return c
}

// ---- sparse profiles in real time ----
//
// TestAccounting's profiles last milliseconds, so a token is never more than a few ms ahead of the instance that drew
// it. Real profiles routinely have tokens that are seconds ahead: rates below 1 rps, a line starting from or falling
// to 0, pauses between sections (const with ops 0, the step-duration of instance_step, a step profile starting at 0).
// genSparse builds such profiles whose LAST token is due at most sparseBudget after the start (the engine ends a pool
// at the last token, not at the nominal end of the profile), so that a case costs ~1-3 s of sleeping.

const sparseBudget = 3300 * time.Millisecond

// genGapMs draws the long interval of a sparse profile: mostly above 1 s (up to the budget), one in five below
// (the same shapes with sub-second waits).
func genGapMs(t *rapid.T, label string, hi int) int {
	switch rapid.IntRange(0, 4).Draw(t, label+"Bucket") {
	case 0:
		return rapid.IntRange(300, 1000).Draw(t, label)
	case 1, 2:
		return rapid.IntRange(1050, min(hi, 1900)).Draw(t, label)
	}
	return rapid.IntRange(min(hi, 1900), hi).Draw(t, label)
}

func msNs(ms int) int64 { return int64(ms) * int64(time.Millisecond) }

// genBurst: a part whose tokens are (almost) simultaneous: once, or a few ms of a high const rate.
func genBurst(t *rapid.T, label string, lo int) sg.Node {
	k := rapid.IntRange(lo, 4).Draw(t, label+"Tok")
	if rapid.IntRange(0, 2).Draw(t, label+"Kind") == 0 && k > 0 {
		d := msNs(rapid.IntRange(5, 40).Draw(t, label+"Ms"))
		return sg.Node{Kind: "const", From: (float64(k) + 0.25) / (float64(d) / 1e9), DurNs: d}
	}
	return sg.Node{Kind: "once", N: int64(k)}
}

// lastTokenAfter: offset of the profile's last token from its start (reference chain).
func lastTokenAfter(n sg.Node) time.Duration {
	start := time.Unix(1, 0)
	parts, _, _, err := sg.Chain(sg.Flatten(n), start)
	if err != nil {
		return time.Hour
	}
	var last time.Duration
	for _, p := range parts {
		if k := len(p.Tokens); k > 0 {
			last = p.Tokens[k-1].Sub(start)
		}
	}
	return last
}

func genSparseProfile(t *rapid.T) (string, sg.Node) {
	shape := rapid.SampledFrom([]string{"const_below_1rps", "const_below_1rps", "line_from_zero", "line_to_zero",
		"pause_between_parts", "pause_between_parts", "instance_step", "step_from_zero"}).Draw(t, "shape")
	var n sg.Node
	switch shape {
	case "const_below_1rps":
		// ops = 1/gap: tokens at 0, gap, 2*gap, ...; k tokens, duration (k+0.25)*gap (e.g. 0.5 rps for 4.5 s: 0 s, 2 s)
		gap := genGapMs(t, "gap", 2900)
		k := rapid.IntRange(2, max(2, 1+int(sparseBudget/time.Millisecond)/gap)).Draw(t, "tok")
		n = sg.Node{Kind: "const", From: 1000 / float64(gap), DurNs: int64((float64(k) + 0.25) * float64(msNs(gap)))}
	case "line_from_zero":
		// rate a*x from 0: token i at gap*sqrt(i)
		gap := genGapMs(t, "gap", 2900)
		k := rapid.IntRange(2, 5).Draw(t, "tok")
		for k > 2 && float64(gap)*math.Sqrt(float64(k-1)) > float64(sparseBudget/time.Millisecond) {
			k--
		}
		d := float64(gap) / 1000 * math.Sqrt(float64(k)+0.25) // seconds
		a := 2 / (float64(gap) / 1000 * float64(gap) / 1000)
		n = sg.Node{Kind: "line", From: 0, To: a * d, DurNs: int64(d * 1e9)}
	case "line_to_zero":
		// rate falling to 0: with N = from*d/2 = k+0.25 the last two tokens are 0.38*d/sqrt(N) apart
		gap := genGapMs(t, "gap", 2900)
		k := rapid.IntRange(2, 4).Draw(t, "tok")
		mk := func(k int) sg.Node {
			N := float64(k) + 0.25
			d := float64(gap) / 1000 * math.Sqrt(N) / (1.5 - math.Sqrt(1.25))
			return sg.Node{Kind: "line", From: 2 * N / d, To: 0, DurNs: int64(d * 1e9)}
		}
		n = mk(k)
		for k > 2 && lastTokenAfter(n) > sparseBudget {
			k--
			n = mk(k)
		}
	case "pause_between_parts":
		// burst, pause, burst [, pause, burst]; the pause is a section without tokens, as in `{type: const, ops: 0, duration: 30s}`
		pauses := rapid.IntRange(1, 2).Draw(t, "pauses")
		left := int(sparseBudget / time.Millisecond)
		n = sg.Node{Kind: "composite", Children: []sg.Node{genBurst(t, "head", 0)}}
		for i := 0; i < pauses; i++ {
			hi := left - 1100*(pauses-1-i)
			p := genGapMs(t, "pause", min(2900, hi))
			left -= p
			var pause sg.Node
			switch rapid.IntRange(0, 2).Draw(t, "pauseKind") {
			case 0:
				pause = sg.Node{Kind: "line", From: 0, To: 0, DurNs: msNs(p)}
			default:
				pause = sg.Node{Kind: "const", From: 0, DurNs: msNs(p)}
			}
			n.Children = append(n.Children, pause, genBurst(t, "part", 1))
		}
	case "instance_step":
		// used as a load profile: `from` tokens at once, then `step` more after every step-duration
		from := rapid.IntRange(0, 3).Draw(t, "from")
		step := rapid.IntRange(1, 3).Draw(t, "step")
		cnt := rapid.IntRange(1, 2).Draw(t, "cnt")
		gap := genGapMs(t, "gap", min(2900, int(sparseBudget/time.Millisecond)/cnt))
		n = sg.Node{Kind: "istep", From: float64(from), To: float64(from + cnt*step), Step: int64(step), DurNs: msNs(gap)}
	case "step_from_zero":
		// level 0 for one duration (no tokens), then `to` rps for one duration
		to := rapid.IntRange(1, 3).Draw(t, "to")
		gap := genGapMs(t, "gap", 1600)
		n = sg.Node{Kind: "step", From: 0, To: float64(to), Step: int64(to), DurNs: msNs(gap)}
	}
	// optionally a burst before and/or after the sparse part, while the whole stays within the budget
	if n.Kind != "composite" {
		switch rapid.IntRange(0, 3).Draw(t, "wrap") {
		case 1:
			n = sg.Node{Kind: "composite", Children: []sg.Node{genBurst(t, "before", 1), n}}
		case 2:
			w := sg.Node{Kind: "composite", Children: []sg.Node{n, genBurst(t, "after", 1)}}
			if lastTokenAfter(w) <= sparseBudget {
				n = w
			}
		}
	}
	return shape, n
}

func genSparse(t *rapid.T) Case {
	c := Case{Repeat: 1}
	c.Shape, c.Profile = genSparseProfile(t)
	c.Instances = rapid.IntRange(1, 5).Draw(t, "instances")
	c.Startup = rapid.SampledFrom([]string{"once", "once", "const", "istep"}).Draw(t, "startup")
	c.PerInstance = rapid.Bool().Draw(t, "perInstance")
	_, _, T, _ := sg.Chain(sg.Flatten(c.Profile), time.Unix(1, 0))
	full := T
	if c.PerInstance {
		full = T * c.Instances
	}
	switch rapid.IntRange(0, 4).Draw(t, "ammoKind") {
	case 0, 1:
		c.Ammo = -1
	case 2:
		c.Ammo = full
	case 3:
		c.Ammo = full + rapid.IntRange(1, c.Instances).Draw(t, "extra")
	default:
		c.Ammo = rapid.IntRange(min(2, full), max(1, full)).Draw(t, "ammoLess")
	}
	c.Discard = rapid.Bool().Draw(t, "discard")
	c.ShotUs = rapid.SliceOfN(rapid.SampledFrom([]int{0, 50, 1000, 20000}), 1, 3).Draw(t, "shotUs")
	c.AcquireUs = rapid.SampledFrom([]int{0, 0, 200}).Draw(t, "acquireUs")
	c.Queue = rapid.SampledFrom([]int{0, 1, 64}).Draw(t, "queue")
	c.AfterLast = rapid.SampledFrom([]string{"return", "wait_ctx"}).Draw(t, "afterLast")
	c.ViaConfig = sg.ConfigOK(c.Profile) && rapid.Bool().Draw(t, "viaConfig")
	return c
}

func startup(c Case) core.Schedule {
	n := int64(c.Instances)
	switch c.Startup {
	case "const":
		d := 4 * time.Millisecond
		if c.StartupMs > 0 {
			d = time.Duration(c.StartupMs) * time.Millisecond
		}
		return schedule.NewConst((float64(n)+0.25)/d.Seconds(), d)
	case "istep":
		if n < 2 {
			return schedule.NewOnce(n)
		}
		return schedule.NewInstanceStep(1, n, 1, time.Millisecond)
	}
	return schedule.NewOnce(n)
}

func check(c Case, o *vf.Obs) error {
	rep := c.Repeat
	if rep < 1 {
		rep = 1
	}
	for i := 0; i < rep; i++ {
		if err := once(c, o, i == 0); err != nil {
			return fmt.Errorf("run %d: %w", i, err)
		}
	}
	return nil
}

var decodeMu sync.Mutex

// gunSetup: plain slowness of a pool's gun set-up (fake.GunPlan FactoryDelayUs / WarmUpDelayUs): the engine
// constructs the first gun of a pool and warms it up synchronously before the pool starts anything else.
type gunSetup struct {
	Kind string `json:"kind,omitempty"` // "" | factory_first | factory_every | warmup
	Us   int    `json:"us,omitempty"`
}

// poolRun: one pool configuration with its recording doubles.
type poolRun struct {
	c       Case
	T       int // tokens of one profile (reference chain)
	prov    *fake.Provider
	guns    *fake.GunWorld
	aggr    *fake.Aggregator
	wrapMu  sync.Mutex
	wrapped []*fake.Sched
	conf    engine.InstancePoolConfig
}

func newPoolRun(c Case, id string, gs gunSetup) (*poolRun, error) {
	prof := effProfile(c)
	_, _, T, err := sg.Chain(sg.Flatten(prof), time.Unix(1, 0))
	if err != nil {
		return nil, err
	}
	p := &poolRun{c: c, T: T}
	p.prov = fake.NewProvider(fake.ProviderPlan{Total: c.Ammo, Queue: c.Queue, AfterLast: c.AfterLast, AcquireUs: c.AcquireUs})
	plan := fake.GunPlan{ShotUs: c.ShotUs, PanicAtShot: -1, FactoryErrAt: -1, BindErrAt: -1, Closer: true}
	switch gs.Kind {
	case "factory_first": // call 0 is the gun the pool constructs for the warm-up
		plan.FactoryDelayUs, plan.FactoryDelayAt = gs.Us, 0
	case "factory_every":
		plan.FactoryDelayUs, plan.FactoryDelayAt = gs.Us, -1
	case "warmup":
		plan.WarmUp, plan.WarmUpDelayUs = true, gs.Us
	}
	p.guns = fake.NewGunWorld(plan)
	p.aggr = fake.NewAggregator(fake.AggPlan{})
	var factory func() (core.Schedule, error)
	if c.ViaConfig {
		var holder struct {
			F func() (core.Schedule, error) `config:"rps"`
		}
		// pandora decodes its config once, on one goroutine, before anything runs (decode hooks are compiled lazily into
		// package variables on the first call): cases that run concurrently in one process take turns here
		decodeMu.Lock()
		err := pand.Decode(map[string]any{"rps": sg.ConfigMap(prof)}, &holder)
		decodeMu.Unlock()
		if err != nil {
			return nil, fmt.Errorf("valid schedule config rejected: %v", err)
		}
		factory = holder.F
	}
	newSched := func() (core.Schedule, error) {
		var s core.Schedule
		if factory != nil {
			var err error
			if s, err = factory(); err != nil {
				return nil, err
			}
		} else {
			s = sg.Build(prof)
		}
		s.Start(time.Now().Add(-time.Duration(c.PastMs) * time.Millisecond))
		if c.Shape != "" {
			w := fake.WrapSched(s)
			p.wrapMu.Lock()
			p.wrapped = append(p.wrapped, w)
			p.wrapMu.Unlock()
			s = w
		}
		return s, nil
	}
	p.conf = engine.InstancePoolConfig{
		ID: id, Provider: p.prov, Aggregator: p.aggr, NewGun: p.guns.Factory,
		RPSPerInstance: c.PerInstance, NewRPSSchedule: newSched,
		StartupSchedule: startup(c), DiscardOverflow: c.Discard,
	}
	return p, nil
}

// poolResult: what the history of one pool's doubles adds up to.
type poolResult struct {
	fired, discarded, tokens, want, acquired, unfired int
}

// judgeCounts: fired + discarded = min(tokens, ammo) for a pool that ended normally with `started` instances.
func (p *poolRun) judgeCounts(started int) (poolResult, error) {
	c := p.c
	var r poolResult
	r.fired = len(p.guns.Shots)
	_, r.discarded = p.aggr.Counts()
	r.tokens = p.T
	if c.PerInstance {
		r.tokens = p.T * started
	}
	r.want = r.tokens
	if c.Ammo >= 0 && c.Ammo < r.want {
		r.want = c.Ammo
	}
	if r.fired+r.discarded != r.want {
		return r, fmt.Errorf("fired %d + discarded %d = %d, expected min(tokens %d, ammo %d) = %d (instances started %d, tokens per profile %d)",
			r.fired, r.discarded, r.fired+r.discarded, r.tokens, c.Ammo, r.want, started, p.T)
	}
	if !c.Discard && r.discarded != 0 {
		return r, fmt.Errorf("%d samples reported as discarded with discard_overflow off", r.discarded)
	}
	return r, nil
}

// judgeItems: Acquire/Release pairing, no use after release, bound on unfired items, one shot at a time per gun.
func (p *poolRun) judgeItems(started int, r *poolResult) error {
	c := p.c
	for _, it := range p.prov.Delivered() {
		r.acquired++
		if it.Acquired() != 1 {
			return fmt.Errorf("harness: item %d delivered %d times", it.ID, it.Acquired())
		}
		if it.Released() != 1 {
			return fmt.Errorf("ammo item %d acquired once but released %d times", it.ID, it.Released())
		}
		if it.UsedAfterRelease() {
			return fmt.Errorf("ammo item %d was used by a shot after it had been released", it.ID)
		}
		if it.Shots() > 1 {
			return fmt.Errorf("ammo item %d was fired %d times", it.ID, it.Shots())
		}
	}
	if n := p.prov.UnknownReleases(); n != 0 {
		return fmt.Errorf("%d Release calls with something that was never acquired", n)
	}
	r.unfired = r.acquired - r.fired - r.discarded
	if c.PerInstance {
		if r.unfired != 0 {
			return fmt.Errorf("%d acquired ammo items went unfired with per-instance finite profiles (must be none)", r.unfired)
		}
	} else if r.unfired < 0 || r.unfired > max(0, started-1) {
		return fmt.Errorf("%d acquired ammo items went unfired, at most instances-1 = %d may", r.unfired, max(0, started-1))
	}
	if p.guns.Overlaps != 0 {
		return fmt.Errorf("%d overlapping Shoot calls on one gun", p.guns.Overlaps)
	}
	return nil
}

func once(c Case, o *vf.Obs, classify bool) error {
	if c.Yield != "" {
		setYield(c.Yield)
		defer setYield("")
	}
	p, err := newPoolRun(c, "p", gunSetup{})
	if err != nil {
		return err
	}
	m := pand.Metrics()
	eng := engine.New(pand.NopLog(), m, engine.Config{Pools: []engine.InstancePoolConfig{p.conf}})
	var runErr error
	ok, stacks := vf.Deadline(60*time.Second, func() { runErr = eng.Run(context.Background()) })
	if !ok {
		return fmt.Errorf("Engine.Run did not return within 60s\n%s", stacks)
	}
	if runErr != nil {
		return fmt.Errorf("Engine.Run returned %v for a pool with finite profiles and no failing component", runErr)
	}
	eng.Wait()
	started := int(m.InstanceStart.Get())
	finished := int(m.InstanceFinish.Get())
	if started != finished {
		return fmt.Errorf("InstanceStart=%d but InstanceFinish=%d after the run", started, finished)
	}
	res, err := p.judgeCounts(started)
	if err != nil {
		return err
	}
	fired, discarded, tokens, want := res.fired, res.discarded, res.tokens, res.want
	if req, resp := int(m.Request.Get()), int(m.Response.Get()); req != fired || resp != fired {
		return fmt.Errorf("request counter %d, response counter %d, requests actually fired %d", req, resp, fired)
	}
	if err := p.judgeItems(started, &res); err != nil {
		return err
	}
	unfired := res.unfired
	if classify {
		o.ClassIf(c.Ammo >= 0 && c.Ammo < tokens, "ammo_lt_tokens")
		o.ClassIf(c.Ammo == tokens, "ammo_eq_tokens")
		o.ClassIf(c.Ammo < 0 || c.Ammo > tokens, "ammo_gt_tokens")
		o.ClassIf(c.PerInstance, "per_instance")
		o.ClassIf(!c.PerInstance, "shared")
		o.ClassIf(discarded > 0, "discards")
		o.ClassIf(c.Profile.Kind == "composite", "composite_profile")
		o.ClassIf(c.ViaConfig, "profile_via_config")
		o.ClassIf(c.StartupMs > 0, "gradual_startup_paced_profile_small_ammo")
		o.ClassIf(c.StartupMs > 0 && started < c.Instances, "ammo_ran_out_while_instances_were_still_being_started")
		o.ClassIf(c.ViaConfig && c.PerInstance && c.Profile.Kind == "composite" && started >= 2, "per_instance_composite_via_config")
		o.ClassIf(unfired > 0, "unfired_ammo")
		o.ClassIf(started < c.Instances, "start_cut_short")
		if c.Contended != "" {
			contendedClasses(c, o, started)
		}
		if c.Shape != "" {
			// measured, not assumed: the longest interval between the instant Next returned a token and that token's time
			var ahead time.Duration
			farTokens := 0
			p.wrapMu.Lock()
			for _, w := range p.wrapped {
				for _, n := range w.Log() {
					if !n.OK {
						continue
					}
					d := n.Tx.Sub(n.After)
					if d > ahead {
						ahead = d
					}
					if d > time.Second {
						farTokens++
					}
				}
			}
			p.wrapMu.Unlock()
			o.Class("shape_" + c.Shape)
			o.ClassIf(ahead > time.Second, "token_handed_out_more_than_1s_ahead")
			o.ClassIf(ahead > 2*time.Second, "token_handed_out_more_than_2s_ahead")
			o.ClassIf(ahead <= time.Second, "no_token_more_than_1s_ahead")
			o.ClassIf(ahead > time.Second && c.Ammo >= 0 && c.Ammo <= tokens, "far_token_and_bounded_ammo")
			o.ClassIf(farTokens >= 2 && started >= 2, "several_instances_waited_more_than_1s")
			o.Note("longest_wait_ms", ahead.Milliseconds())
			if ahead > time.Second && want >= 2 {
				o.NonTrivial()
			}
		} else if c.Instances >= 2 && want >= c.Instances {
			o.NonTrivial()
		}
		o.Note("fired", fired)
		o.Note("discarded", discarded)
		o.Note("tokens", tokens)
	}
	return nil
}

func TestAccounting(t *testing.T) {
	pand.Init()
	r := vf.Start(t, "C03")
	vf.Check(r, genCase, check)
}

// TestSparseProfiles: the same conservation laws for profiles that run in real time with tokens seconds apart
// (sleep-bound: all cases of a process run concurrently).
func TestSparseProfiles(t *testing.T) {
	pand.Init()
	r := vf.Start(t, "C03")
	n := r.Pick(24, 96)
	vf.Batch(r, n, 32, genSparse, check)
}
