// C03 — engine shot accounting: one shot or one discard per token and ammo item.
//
// Oracle: conservation laws over the recorded history of the doubles.
package c03

import (
	"context"
	"fmt"
	"testing"
	"time"

	"verif/harness/internal/fake"
	"verif/harness/internal/pand"
	sg "verif/harness/internal/schedgen"
	"verif/harness/internal/vf"

	"github.com/yandex/pandora/core"
	"github.com/yandex/pandora/core/engine"
	"github.com/yandex/pandora/core/schedule"
	"pgregory.net/rapid"
)

type Case struct {
	Instances   int     `json:"instances"`
	Startup     string  `json:"startup"` // once | const | istep
	PerInstance bool    `json:"rps_per_instance"`
	Profile     sg.Node `json:"profile"`
	PastMs      int     `json:"profile_started_ms_ago"`
	Ammo        int     `json:"ammo"` // <0 unbounded
	Discard     bool    `json:"discard_overflow"`
	ShotUs      []int   `json:"shot_us"`
	AcquireUs   int     `json:"acquire_us"`
	Queue       int     `json:"queue"`
	AfterLast   string  `json:"provider_after_last"`
	Repeat      int     `json:"repeat"`
	// ViaConfig: the pool's schedule factory is what config decoding produces from the profile's config map (as in a
	// real run: one decoded section, the factory called once per instance with rps-per-instance), not a constructor call.
	ViaConfig bool `json:"profile_via_config"`
	// StartupMs: length of a const startup profile (default 4 ms)
	StartupMs int `json:"startup_ms,omitempty"`
}

var profOpts = sg.Opts{MaxDepth: 2, MaxChildren: 4, MaxLeafTok: 25, MinDur: time.Millisecond, MaxDur: 8 * time.Millisecond}

// genGradual: instances are still being started (const startup over 20-50 ms) while a paced shared profile (one token
// every few ms, started now) hands out tokens and a small ammo supply runs out: at that moment other instances hold an
// ammo item while they wait for their token's time.
func genGradual(t *rapid.T) Case {
	c := Case{Startup: "const", Repeat: 3, AfterLast: "return"}
	c.Instances = rapid.IntRange(2, 6).Draw(t, "instances")
	c.StartupMs = rapid.IntRange(20, 50).Draw(t, "startupMs")
	d := int64(rapid.IntRange(30, 80).Draw(t, "profileMs")) * int64(time.Millisecond)
	tok := rapid.IntRange(8, 25).Draw(t, "tokens")
	c.Profile = sg.Node{Kind: "const", From: (float64(tok) + 0.25) / (float64(d) / 1e9), DurNs: d}
	c.PerInstance = rapid.IntRange(0, 3).Draw(t, "perInstance") == 0
	c.Ammo = rapid.IntRange(1, c.Instances+4).Draw(t, "ammo")
	c.Discard = rapid.Bool().Draw(t, "discard")
	c.ShotUs = []int{rapid.SampledFrom([]int{0, 50, 500}).Draw(t, "shotUs")}
	c.Queue = rapid.SampledFrom([]int{0, 1, 64}).Draw(t, "queue")
	return c
}

func genCase(t *rapid.T) Case {
	if rapid.IntRange(0, 3).Draw(t, "gradual") == 0 {
		return genGradual(t)
	}
	c := Case{}
	c.Instances = rapid.IntRange(1, 8).Draw(t, "instances")
	c.Startup = rapid.SampledFrom([]string{"once", "once", "const", "istep"}).Draw(t, "startup")
	c.PerInstance = rapid.Bool().Draw(t, "perInstance")
	c.Profile = sg.GenTree(t, profOpts, 0)
	c.PastMs = rapid.SampledFrom([]int{0, 0, 1900, 2100, 2500, 3000}).Draw(t, "past")
	T := 0
	for _, l := range sg.Flatten(c.Profile) {
		_ = l
	}
	parts, _, tot, err := sg.Chain(sg.Flatten(c.Profile), time.Unix(1, 0))
	_ = parts
	if err == nil {
		T = tot
	}
	full := T
	if c.PerInstance {
		full = T * c.Instances
	}
	switch rapid.IntRange(0, 4).Draw(t, "ammoKind") {
	case 0:
		c.Ammo = -1
	case 1:
		c.Ammo = rapid.IntRange(0, full+c.Instances+2).Draw(t, "ammo")
	case 2:
		c.Ammo = full
	case 3:
		c.Ammo = full + rapid.IntRange(0, c.Instances).Draw(t, "extra")
	default:
		c.Ammo = rapid.IntRange(0, max(1, full)).Draw(t, "ammoLess")
	}
	c.Discard = rapid.Bool().Draw(t, "discard")
	c.ShotUs = rapid.SliceOfN(rapid.SampledFrom([]int{0, 0, 50, 1000}), 1, 4).Draw(t, "shotUs")
	c.AcquireUs = rapid.SampledFrom([]int{0, 0, 20, 200}).Draw(t, "acquireUs")
	c.Queue = rapid.SampledFrom([]int{0, 1, 64}).Draw(t, "queue")
	c.AfterLast = rapid.SampledFrom([]string{"return", "wait_ctx"}).Draw(t, "afterLast")
	c.Repeat = 3
	c.ViaConfig = sg.ConfigOK(c.Profile) && rapid.Bool().Draw(t, "viaConfig")
	return c
}

func startup(c Case) core.Schedule {
	n := int64(c.Instances)
	switch c.Startup {
	case "const":
		d := 4 * time.Millisecond
		if c.StartupMs > 0 {
			d = time.Duration(c.StartupMs) * time.Millisecond
		}
		return schedule.NewConst((float64(n)+0.25)/d.Seconds(), d)
	case "istep":
		if n < 2 {
			return schedule.NewOnce(n)
		}
		return schedule.NewInstanceStep(1, n, 1, time.Millisecond)
	}
	return schedule.NewOnce(n)
}

func check(c Case, o *vf.Obs) error {
	rep := c.Repeat
	if rep < 1 {
		rep = 1
	}
	for i := 0; i < rep; i++ {
		if err := once(c, o, i == 0); err != nil {
			return fmt.Errorf("run %d: %w", i, err)
		}
	}
	return nil
}

func once(c Case, o *vf.Obs, classify bool) error {
	_, _, T, err := sg.Chain(sg.Flatten(c.Profile), time.Unix(1, 0))
	if err != nil {
		return err
	}
	prov := fake.NewProvider(fake.ProviderPlan{Total: c.Ammo, Queue: c.Queue, AfterLast: c.AfterLast, AcquireUs: c.AcquireUs})
	guns := fake.NewGunWorld(fake.GunPlan{ShotUs: c.ShotUs, PanicAtShot: -1, FactoryErrAt: -1, BindErrAt: -1, Closer: true})
	aggr := fake.NewAggregator(fake.AggPlan{})
	m := pand.Metrics()
	var factory func() (core.Schedule, error)
	if c.ViaConfig {
		var holder struct {
			F func() (core.Schedule, error) `config:"rps"`
		}
		if err := pand.Decode(map[string]any{"rps": sg.ConfigMap(c.Profile)}, &holder); err != nil {
			return fmt.Errorf("valid schedule config rejected: %v", err)
		}
		factory = holder.F
	}
	newSched := func() (core.Schedule, error) {
		var s core.Schedule
		if factory != nil {
			var err error
			if s, err = factory(); err != nil {
				return nil, err
			}
		} else {
			s = sg.Build(c.Profile)
		}
		s.Start(time.Now().Add(-time.Duration(c.PastMs) * time.Millisecond))
		return s, nil
	}
	conf := engine.Config{Pools: []engine.InstancePoolConfig{{
		ID: "p", Provider: prov, Aggregator: aggr, NewGun: guns.Factory,
		RPSPerInstance: c.PerInstance, NewRPSSchedule: newSched,
		StartupSchedule: startup(c), DiscardOverflow: c.Discard,
	}}}
	eng := engine.New(pand.NopLog(), m, conf)
	var runErr error
	ok, stacks := vf.Deadline(60*time.Second, func() { runErr = eng.Run(context.Background()) })
	if !ok {
		return fmt.Errorf("Engine.Run did not return within 60s\n%s", stacks)
	}
	if runErr != nil {
		return fmt.Errorf("Engine.Run returned %v for a pool with finite profiles and no failing component", runErr)
	}
	eng.Wait()
	fired := len(guns.Shots)
	_, discarded := aggr.Counts()
	started := int(m.InstanceStart.Get())
	finished := int(m.InstanceFinish.Get())
	if started != finished {
		return fmt.Errorf("InstanceStart=%d but InstanceFinish=%d after the run", started, finished)
	}
	tokens := T
	if c.PerInstance {
		tokens = T * started
	}
	want := tokens
	if c.Ammo >= 0 && c.Ammo < want {
		want = c.Ammo
	}
	if fired+discarded != want {
		return fmt.Errorf("fired %d + discarded %d = %d, expected min(tokens %d, ammo %d) = %d (instances started %d, tokens per profile %d)",
			fired, discarded, fired+discarded, tokens, c.Ammo, want, started, T)
	}
	if !c.Discard && discarded != 0 {
		return fmt.Errorf("%d samples reported as discarded with discard_overflow off", discarded)
	}
	if req, resp := int(m.Request.Get()), int(m.Response.Get()); req != fired || resp != fired {
		return fmt.Errorf("request counter %d, response counter %d, requests actually fired %d", req, resp, fired)
	}
	acquired := 0
	for _, it := range prov.Delivered() {
		acquired++
		if it.Acquired() != 1 {
			return fmt.Errorf("harness: item %d delivered %d times", it.ID, it.Acquired())
		}
		if it.Released() != 1 {
			return fmt.Errorf("ammo item %d acquired once but released %d times", it.ID, it.Released())
		}
		if it.UsedAfterRelease() {
			return fmt.Errorf("ammo item %d was used by a shot after it had been released", it.ID)
		}
		if it.Shots() > 1 {
			return fmt.Errorf("ammo item %d was fired %d times", it.ID, it.Shots())
		}
	}
	if n := prov.UnknownReleases(); n != 0 {
		return fmt.Errorf("%d Release calls with something that was never acquired", n)
	}
	unfired := acquired - fired - discarded
	if c.PerInstance {
		if unfired != 0 {
			return fmt.Errorf("%d acquired ammo items went unfired with per-instance finite profiles (must be none)", unfired)
		}
	} else if unfired < 0 || unfired > max(0, started-1) {
		return fmt.Errorf("%d acquired ammo items went unfired, at most instances-1 = %d may", unfired, max(0, started-1))
	}
	if guns.Overlaps != 0 {
		return fmt.Errorf("%d overlapping Shoot calls on one gun", guns.Overlaps)
	}
	if classify {
		o.ClassIf(c.Ammo >= 0 && c.Ammo < tokens, "ammo_lt_tokens")
		o.ClassIf(c.Ammo == tokens, "ammo_eq_tokens")
		o.ClassIf(c.Ammo < 0 || c.Ammo > tokens, "ammo_gt_tokens")
		o.ClassIf(c.PerInstance, "per_instance")
		o.ClassIf(!c.PerInstance, "shared")
		o.ClassIf(discarded > 0, "discards")
		o.ClassIf(c.Profile.Kind == "composite", "composite_profile")
		o.ClassIf(c.ViaConfig, "profile_via_config")
		o.ClassIf(c.StartupMs > 0, "gradual_startup_paced_profile_small_ammo")
		o.ClassIf(c.StartupMs > 0 && started < c.Instances, "ammo_ran_out_while_instances_were_still_being_started")
		o.ClassIf(c.ViaConfig && c.PerInstance && c.Profile.Kind == "composite" && started >= 2, "per_instance_composite_via_config")
		o.ClassIf(unfired > 0, "unfired_ammo")
		o.ClassIf(started < c.Instances, "start_cut_short")
		if c.Instances >= 2 && want >= c.Instances {
			o.NonTrivial()
		}
		o.Note("fired", fired)
		o.Note("discarded", discarded)
		o.Note("tokens", tokens)
	}
	return nil
}

func TestAccounting(t *testing.T) {
	pand.Init()
	r := vf.Start(t, "C03")
	vf.Check(r, genCase, check)
}
