package c03

// TestMultiPool: engines with SEVERAL pools.
//
// The other tests of this package run one pool per engine. A real config often lists several pools (different
// targets / guns / profiles in one test); Engine.Run starts them all, each pool in its own goroutine, and hands every
// pool the SAME Metrics (the process-wide expvar counters). Pools do not start shooting together: before a pool
// starts its provider, aggregator and instances it constructs one gun and warms it up synchronously (dial, TLS,
// reading a scenario), which for one pool can take many milliseconds while another pool is already shooting - and a
// pool also ends while others go on. The property is stated per pool ("when a pool ends normally ...") and for the
// engine's counters ("request and response counters both equal the number of fired requests"): with several pools
// that is the number of requests fired by ALL pools. Oracle: TestAccounting's conservation laws for every pool from
// its own doubles, InstanceStart = InstanceFinish, Request = Response = sum of Gun.Shoot calls over all pools.

import (
	"context"
	"fmt"
	"testing"
	"time"

	"verif/harness/internal/pand"
	sg "verif/harness/internal/schedgen"
	"verif/harness/internal/vf"

	"github.com/yandex/pandora/core/engine"
	"pgregory.net/rapid"
)

type PoolCase struct {
	Case
	Setup gunSetup `json:"gun_setup"`
}

type MultiCase struct {
	Pools  []PoolCase `json:"pools"`
	Repeat int        `json:"repeat"`
}

var multiProfOpts = sg.Opts{MaxDepth: 2, MaxChildren: 3, MaxLeafTok: 15, MinDur: time.Millisecond, MaxDur: 6 * time.Millisecond}

func genPool(t *rapid.T, idx int) PoolCase {
	var p PoolCase
	c := &p.Case
	c.Instances = rapid.IntRange(1, 4).Draw(t, "instances")
	c.Startup = rapid.SampledFrom([]string{"once", "once", "const", "istep"}).Draw(t, "startup")
	c.PerInstance = rapid.Bool().Draw(t, "perInstance")
	switch rapid.IntRange(0, 2).Draw(t, "profileKind") {
	case 0:
		// paced: one token every ms or so for 8-40 ms from the pool's start: the pool is in the middle of its
		// shooting while other pools are being set up, start and end
		d := int64(rapid.IntRange(8, 40).Draw(t, "profileMs")) * int64(time.Millisecond)
		tok := rapid.IntRange(5, 30).Draw(t, "tokens")
		c.Profile = sg.Node{Kind: "const", From: (float64(tok) + 0.25) / (float64(d) / 1e9), DurNs: d}
	default:
		c.Profile = sg.GenTree(t, multiProfOpts, 0)
		c.PastMs = rapid.SampledFrom([]int{0, 1900, 2100, 3000}).Draw(t, "past")
	}
	_, _, T, _ := sg.Chain(sg.Flatten(c.Profile), time.Unix(1, 0))
	full := T
	if c.PerInstance {
		full = T * c.Instances
	}
	switch rapid.IntRange(0, 4).Draw(t, "ammoKind") {
	case 0, 1:
		c.Ammo = -1
	case 2:
		c.Ammo = full
	case 3:
		c.Ammo = full + rapid.IntRange(1, c.Instances).Draw(t, "extra")
	default:
		c.Ammo = rapid.IntRange(0, max(1, full)).Draw(t, "ammoLess")
	}
	c.Discard = rapid.Bool().Draw(t, "discard")
	c.ShotUs = rapid.SliceOfN(rapid.SampledFrom([]int{0, 0, 50, 500}), 1, 3).Draw(t, "shotUs")
	c.AcquireUs = rapid.SampledFrom([]int{0, 0, 20}).Draw(t, "acquireUs")
	c.Queue = rapid.SampledFrom([]int{0, 1, 64}).Draw(t, "queue")
	c.AfterLast = rapid.SampledFrom([]string{"return", "wait_ctx"}).Draw(t, "afterLast")
	c.ViaConfig = sg.ConfigOK(c.Profile) && rapid.IntRange(0, 3).Draw(t, "viaConfig") == 0
	// gun set-up of this pool: instant, or plainly slow (construction of the first gun / of every gun / the warm-up)
	p.Setup.Kind = rapid.SampledFrom([]string{"", "", "factory_first", "factory_every", "warmup"}).Draw(t, "setup")
	if p.Setup.Kind != "" {
		p.Setup.Us = rapid.SampledFrom([]int{200, 1000, 2000, 5000, 10000, 20000}).Draw(t, "setupUs")
	}
	return p
}

func genMulti(t *rapid.T) MultiCase {
	mc := MultiCase{Repeat: 2}
	n := rapid.SampledFrom([]int{2, 2, 2, 3, 3, 4}).Draw(t, "pools")
	for i := 0; i < n; i++ {
		mc.Pools = append(mc.Pools, genPool(t, i))
	}
	return mc
}

func checkMulti(mc MultiCase, o *vf.Obs) error {
	rep := max(1, mc.Repeat)
	for i := 0; i < rep; i++ {
		if err := onceMulti(mc, o, i == 0); err != nil {
			return fmt.Errorf("run %d: %w", i, err)
		}
	}
	return nil
}

func onceMulti(mc MultiCase, o *vf.Obs, classify bool) error {
	var pools []*poolRun
	var conf engine.Config
	for i, pc := range mc.Pools {
		p, err := newPoolRun(pc.Case, fmt.Sprintf("p%d", i), pc.Setup)
		if err != nil {
			return err
		}
		pools = append(pools, p)
		conf.Pools = append(conf.Pools, p.conf)
	}
	m := pand.Metrics() // one set of counters for the whole engine, as in cli.Run
	eng := engine.New(pand.NopLog(), m, conf)
	var runErr error
	ok, stacks := vf.Deadline(60*time.Second, func() { runErr = eng.Run(context.Background()) })
	if !ok {
		return fmt.Errorf("Engine.Run did not return within 60s\n%s", stacks)
	}
	if runErr != nil {
		return fmt.Errorf("Engine.Run returned %v for %d pools with finite profiles and no failing component", runErr, len(pools))
	}
	eng.Wait()
	if s, f := int(m.InstanceStart.Get()), int(m.InstanceFinish.Get()); s != f {
		return fmt.Errorf("InstanceStart=%d but InstanceFinish=%d after the run of %d pools", s, f, len(pools))
	}
	firedAll, poolsThatFired, poolsWithWork := 0, 0, 0
	results := make([]poolResult, len(pools))
	for i, p := range pools {
		// instances of this pool that were started = guns of this pool that were bound (the metrics are shared)
		started := 0
		for _, g := range p.guns.Guns {
			if g.Bound.Load() {
				started++
			}
		}
		res, err := p.judgeCounts(started)
		if err == nil {
			err = p.judgeItems(started, &res)
		}
		if err != nil {
			return fmt.Errorf("pool %d of %d: %w", i, len(pools), err)
		}
		results[i] = res
		firedAll += res.fired
		if res.want > 0 {
			poolsWithWork++
		}
		if res.fired > 0 {
			poolsThatFired++
		}
	}
	if req, resp := int(m.Request.Get()), int(m.Response.Get()); req != firedAll || resp != firedAll {
		per := make([]int, len(results))
		for i, r := range results {
			per[i] = r.fired
		}
		return fmt.Errorf("request counter %d, response counter %d, requests actually fired by the %d pools %d %v",
			req, resp, len(pools), firedAll, per)
	}
	if classify {
		// measured: the instant a pool's synchronous gun set-up (first gun constructed, warmed up) was over, against the
		// shots of the OTHER pools
		during, amid, slow := false, false, false
		for i, p := range pools {
			var setupEnd time.Time
			for _, sp := range p.guns.StepSpans() {
				if (sp.Kind == "warmup" || (sp.Kind == "factory" && sp.Call == 0)) && sp.End.After(setupEnd) {
					setupEnd = sp.End
				}
			}
			if setupEnd.IsZero() {
				continue
			}
			slow = true
			for j, q := range pools {
				if j == i {
					continue
				}
				before, after := false, false
				for _, s := range q.guns.Shots {
					if s.Enter.Before(setupEnd) {
						before = true
					} else {
						after = true
					}
				}
				during = during || before
				amid = amid || (before && after)
			}
		}
		o.Class(fmt.Sprintf("pools_%d", len(pools)))
		o.ClassIf(slow, "some_pool_with_slow_gun_setup")
		o.ClassIf(!slow, "all_pools_set_up_at_once")
		o.ClassIf(during, "pool_finished_gun_setup_after_another_pool_had_fired")
		o.ClassIf(amid, "pool_finished_gun_setup_in_the_middle_of_another_pools_shooting")
		o.ClassIf(poolsThatFired >= 2, "two_or_more_pools_fired")
		perInst, shared, discards, short := false, false, false, false
		for i, pc := range mc.Pools {
			perInst = perInst || pc.PerInstance
			shared = shared || !pc.PerInstance
			discards = discards || results[i].discarded > 0
			short = short || (pc.Ammo >= 0 && pc.Ammo < results[i].tokens)
			o.ClassIf(pc.Setup.Kind != "", "setup_"+pc.Setup.Kind)
		}
		o.ClassIf(perInst && shared, "per_instance_and_shared_pools_together")
		o.ClassIf(discards, "discards")
		o.ClassIf(short, "some_pool_ammo_lt_tokens")
		if poolsWithWork >= 2 {
			o.NonTrivial()
		}
		o.Note("fired", firedAll)
		o.Note("pools", len(pools))
	}
	return nil
}

func TestMultiPool(t *testing.T) {
	pand.Init()
	r := vf.Start(t, "C03")
	vf.Check(r, genMulti, checkMulti)
}
