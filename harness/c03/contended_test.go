package c03

// TestBoundaryContention: shared profiles made of MANY SMALL parts drained by more instances than a part has tokens.
//
// A list profile (`rps: [a, b, ...]`), `step` and `instance_step` are all one composite schedule: a chain of parts,
// the next part being started by whichever instance finds the current one drained. TestAccounting's profiles have at
// most a dozen parts of up to 25 tokens, so instances meet at a part boundary a few times per run. Real profiles are
// routinely hundreds of parts long with a handful of tokens each (a `step` profile with short steps, `instance_step`
// used as a load profile, a generated list of `once`/pause pairs). Here every part has fewer tokens than there are
// instances and the tokens are overdue (profile started in the past) or microseconds apart, so nobody sleeps and
// several instances arrive at EVERY boundary together: one starts the next part, the others find it started - or
// already drained again - when they get there. The oracle is TestAccounting's (conservation of tokens and ammo).

import (
	"runtime"
	"sync/atomic"
	"testing"
	"time"

	"verif/harness/internal/pand"
	sg "verif/harness/internal/schedgen"
	"verif/harness/internal/vf"

	"github.com/yandex/pandora/core/schedule"
	"pgregory.net/rapid"
)

// yieldMode: 0 the hook does nothing, 1 Gosched between the locks, 2 Gosched at every hook point (Case.Yield).
var yieldMode atomic.Int32

func setYield(mode string) {
	switch mode {
	case "upgrade":
		yieldMode.Store(1)
	case "all":
		yieldMode.Store(2)
	default:
		yieldMode.Store(0)
	}
}

func yieldHook(point string) {
	switch yieldMode.Load() {
	case 1:
		if point == "next.upgrade" || point == "left.upgrade" {
			runtime.Gosched()
		}
	case 2:
		runtime.Gosched()
	}
}

func usNs(us int) int64 { return int64(us) * int64(time.Microsecond) }

// genPartUs: length of a small part: 1-3 ms (the config accepts durations from 1 ms) or, for profiles built through
// the constructors, 10-500 us.
func genPartUs(t *rapid.T, label string) int {
	if rapid.Bool().Draw(t, label+"Ms") {
		return 1000 * rapid.IntRange(1, 3).Draw(t, label)
	}
	return rapid.IntRange(10, 500).Draw(t, label)
}

// configExpressible: the tree can be written in a config file: once with times >= 1, durations of at least 1 ms.
func configExpressible(n sg.Node) bool {
	if !sg.ConfigOK(n) {
		return false
	}
	if n.Kind != "once" && n.Kind != "composite" && n.DurNs < int64(time.Millisecond) {
		return false
	}
	for _, c := range n.Children {
		if !configExpressible(c) {
			return false
		}
	}
	return true
}

// genSmallPart: a part of at most maxTok tokens lasting at most 3 ms, or a token-less section.
func genSmallPart(t *rapid.T, maxTok int, label string) sg.Node {
	switch rapid.SampledFrom([]string{"once", "once", "once", "const", "line", "pause", "pause"}).Draw(t, label+"Kind") {
	case "const":
		k := rapid.IntRange(1, maxTok).Draw(t, label+"Tok")
		d := usNs(genPartUs(t, label+"Us"))
		return sg.Node{Kind: "const", From: (float64(k) + 0.25) / (float64(d) / 1e9), DurNs: d}
	case "line":
		k := rapid.IntRange(1, maxTok).Draw(t, label+"Tok")
		d := usNs(genPartUs(t, label+"Us"))
		avg := (float64(k) + 0.25) / (float64(d) / 1e9)
		if rapid.Bool().Draw(t, label+"Rising") {
			return sg.Node{Kind: "line", From: avg / 2, To: avg * 3 / 2, DurNs: d}
		}
		return sg.Node{Kind: "line", From: avg * 3 / 2, To: avg / 2, DurNs: d}
	case "pause":
		d := usNs(genPartUs(t, label+"Us"))
		switch rapid.IntRange(0, 3).Draw(t, label+"PauseKind") {
		case 0:
			return sg.Node{Kind: "line", From: 0, To: 0, DurNs: d}
		case 1:
			return sg.Node{Kind: "once", N: 0} // constructor only (config wants times >= 1)
		}
		return sg.Node{Kind: "const", From: 0, DurNs: d}
	}
	return sg.Node{Kind: "once", N: int64(rapid.IntRange(1, maxTok).Draw(t, label+"Tok"))}
}

// genShortStep: `step` with steps of 0.5-2 ms holding 1-4 tokens each.
func genShortStep(t *rapid.T, levels int) sg.Node {
	durUs := rapid.SampledFrom([]int{500, 1000, 2000}).Draw(t, "stepUs")
	base := rapid.IntRange(1, 2).Draw(t, "stepBaseTok") // tokens of the first level
	from := base * 1_000_000 / durUs
	step := rapid.IntRange(1, max(1, 2*1_000_000/durUs/levels)).Draw(t, "stepStep") // at most ~2 tokens more at the top
	return sg.Node{Kind: "step", From: float64(from), To: float64(from + (levels-1)*step), Step: int64(step), DurNs: usNs(durUs)}
}

// genShortIStep: instance_step as a load profile: `from` at once, then `step` more every 10 us - 3 ms.
func genShortIStep(t *rapid.T, cnt, maxTok int) sg.Node {
	from := rapid.IntRange(0, maxTok).Draw(t, "istepFrom")
	step := rapid.IntRange(1, maxTok).Draw(t, "istepStep")
	return sg.Node{Kind: "istep", From: float64(from), To: float64(from + cnt*step), Step: int64(step),
		DurNs: usNs(genPartUs(t, "istepUs"))}
}

func genContended(t *rapid.T) Case {
	c := Case{Repeat: 3}
	c.Instances = rapid.SampledFrom([]int{2, 3, 4, 4, 6, 8, 8, 12, 16}).Draw(t, "instances")
	c.Startup = rapid.SampledFrom([]string{"once", "once", "once", "const", "istep"}).Draw(t, "startup")
	c.PerInstance = rapid.IntRange(0, 7).Draw(t, "perInstance") == 0
	maxTok := min(3, c.Instances-1) // fewer tokens per part than instances
	c.Contended = rapid.SampledFrom([]string{"list", "list", "step", "istep", "nested"}).Draw(t, "shape")
	switch c.Contended {
	case "list":
		k := rapid.IntRange(1, 5).Draw(t, "patternLen")
		n := sg.Node{Kind: "composite", Children: []sg.Node{{Kind: "once", N: int64(rapid.IntRange(1, maxTok).Draw(t, "headTok"))}}}
		for i := 1; i < k; i++ {
			n.Children = append(n.Children, genSmallPart(t, maxTok, "part"))
		}
		c.Profile = n
		c.Times = rapid.IntRange(20, 400/k).Draw(t, "times")
	case "step":
		c.Profile = genShortStep(t, rapid.IntRange(30, 200).Draw(t, "levels"))
	case "istep":
		c.Profile = genShortIStep(t, rapid.IntRange(30, 200).Draw(t, "cnt"), maxTok)
	case "nested":
		// a list whose parts are short step / instance_step profiles and small parts
		n := sg.Node{Kind: "composite"}
		for i, k := 0, rapid.IntRange(2, 4).Draw(t, "patternLen"); i < k; i++ {
			switch rapid.IntRange(0, 2).Draw(t, "nestedKind") {
			case 0:
				n.Children = append(n.Children, genShortStep(t, rapid.IntRange(3, 12).Draw(t, "levels")))
			case 1:
				n.Children = append(n.Children, genShortIStep(t, rapid.IntRange(3, 12).Draw(t, "cnt"), maxTok))
			default:
				n.Children = append(n.Children, genSmallPart(t, maxTok, "part"))
			}
		}
		n.Children = append(n.Children, sg.Node{Kind: "once", N: 1})
		c.Profile = n
		c.Times = rapid.IntRange(4, 16).Draw(t, "times")
	}
	// all tokens overdue (nobody sleeps; more than 2 s overdue is what discard_overflow discards), or - for profiles
	// that last a few ms - run as they are: tokens tens of microseconds apart
	for c.Times > 1 && lastTokenAfter(effProfile(c)) > 1500*time.Millisecond {
		c.Times = (c.Times + 1) / 2
	}
	c.PastMs = rapid.SampledFrom([]int{1700, 1700, 1900, 2500, 3000}).Draw(t, "past")
	if lastTokenAfter(effProfile(c)) < 40*time.Millisecond && rapid.IntRange(0, 1).Draw(t, "live") == 0 {
		c.PastMs = 0
	}
	_, _, T, _ := sg.Chain(sg.Flatten(effProfile(c)), time.Unix(1, 0))
	full := T
	if c.PerInstance {
		full = T * c.Instances
	}
	switch rapid.IntRange(0, 5).Draw(t, "ammoKind") {
	case 0, 1, 2:
		c.Ammo = -1
	case 3:
		c.Ammo = full
	case 4:
		c.Ammo = full + rapid.IntRange(1, c.Instances).Draw(t, "extra")
	default:
		c.Ammo = rapid.IntRange(full/2, max(1, full)).Draw(t, "ammoLess")
	}
	c.Discard = rapid.Bool().Draw(t, "discard")
	c.ShotUs = rapid.SampledFrom([][]int{{0}, {0}, {0, 0, 20}, {5}}).Draw(t, "shotUs")
	c.Queue = rapid.SampledFrom([]int{0, 1, 64, 64}).Draw(t, "queue")
	c.AfterLast = rapid.SampledFrom([]string{"return", "wait_ctx"}).Draw(t, "afterLast")
	c.ViaConfig = configExpressible(c.Profile) && rapid.Bool().Draw(t, "viaConfig")
	c.Yield = rapid.SampledFrom([]string{"", "upgrade", "upgrade", "all"}).Draw(t, "yield")
	return c
}

// contendedClasses labels a case of TestBoundaryContention from its reference chain (called for the first run only).
func contendedClasses(c Case, o *vf.Obs, started int) {
	parts, _, _, err := sg.Chain(sg.Flatten(effProfile(c)), time.Unix(1, 0))
	if err != nil {
		return
	}
	maxPart, withTokens := 0, 0
	for _, p := range parts {
		if k := len(p.Tokens); k > 0 {
			withTokens++
			maxPart = max(maxPart, k)
		}
	}
	o.Class("contended_" + c.Contended)
	small := len(parts) >= 30 && maxPart < c.Instances
	o.ClassIf(small && !c.PerInstance && started >= 2, "shared_small_parts_fewer_tokens_than_instances")
	o.ClassIf(small && !c.PerInstance && started >= 2 && c.PastMs > 0, "shared_small_parts_all_tokens_overdue")
	o.ClassIf(small && !c.PerInstance && started >= 2 && c.PastMs == 0, "shared_small_parts_live")
	o.ClassIf(small && !c.PerInstance && started >= 8, "shared_small_parts_8_or_more_instances")
	o.ClassIf(small && !c.PerInstance && started >= 2 && maxPart == 1, "shared_one_token_parts")
	o.ClassIf(len(parts) >= 100, "parts_100_or_more")
	o.ClassIf(small && !c.PerInstance && started >= 2 && c.Yield != "", "shared_small_parts_yield_between_locks")
	o.ClassIf(small && !c.PerInstance && started >= 2 && c.Yield == "", "shared_small_parts_plain_scheduling")
	o.Note("parts", len(parts))
	o.Note("parts_with_tokens", withTokens)
}

func TestBoundaryContention(t *testing.T) {
	pand.Init()
	schedule.VerifYield = yieldHook // before any schedule is used; inert unless a case asks for it (Case.Yield)
	r := vf.Start(t, "C03")
	vf.Check(r, genContended, check)
}
