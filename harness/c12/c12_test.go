// C12 — instance startup profile: how many instances start, when, and with which ids.
//
// Oracle: validity predicates over measured instants (gun creation vs. startup
// token times from the C02 reference chain; gun close vs. the instants at which
// ammo ran out / the shared profile was exhausted / the run was cancelled).
package c12

import (
	"context"
	"fmt"
	"io"
	"sort"
	"sync"
	"testing"
	"time"

	"verif/harness/internal/fake"
	"verif/harness/internal/pand"
	sg "verif/harness/internal/schedgen"
	"verif/harness/internal/vf"

	"github.com/yandex/pandora/core"
	"github.com/yandex/pandora/core/engine"
	"github.com/yandex/pandora/core/schedule"
	"github.com/yandex/pandora/core/warmup"
	"pgregory.net/rapid"
)

type Case struct {
	Startup      sg.Node `json:"startup"`
	Mode         string  `json:"mode"` // long | shared_outlasts | shared_short | per_instance | ammo_short
	RPSTokens    int     `json:"rps_tokens"`
	Ammo         int     `json:"ammo"`
	FactoryErrAt int     `json:"factory_err_at"` // -1 none
	ShotUs       int     `json:"shot_us"`
	// Buffered (modes long and per_instance): the ammo set is finite, fits into the provider's queue as a whole and
	// the provider's Run returns as soon as it has queued it - long before the startup profile has released its
	// tokens and with (far) more ammo queued than the run can shoot. Provider.Run returning is not "ammo ran out".
	Buffered bool `json:"buffered_ammo,omitempty"`
	// SharedHead / SharedTail (modes long and ammo_short): the pool-wide RPS profile is a composite of the head parts and
	// a tail that lasts 120 s: "" = const (a known number of tokens), "unlimited" = as many shots as the instances manage.
	// With an `unlimited` part anywhere ahead the profile cannot tell how many tokens are left (Left() < 0): that is
	// "unknown", not "finished" - the profile still outlasts the startup profile and every startup token must become an instance.
	SharedHead []SharedPart `json:"shared_rps_head,omitempty"`
	SharedTail string       `json:"shared_rps_tail,omitempty"`
	// ImplicitStart: the harness does not Start the startup profile itself - the engine's first draw starts it, which is
	// what happens in every real run. The profile's clock then begins when the pool begins to start instances: not
	// before Engine.Run was called and not before the gun's warm-up returned (WarmUpMs > 0: guns implement
	// warmup.WarmedUp and the warm-up takes that long). Token k is then due no earlier than that instant + its offset,
	// so a profile whose clock ran during the warm-up (instances released in a burst when it ends) is seen.
	ImplicitStart bool `json:"implicit_start,omitempty"`
	WarmUpMs      int  `json:"warmup_ms,omitempty"`
	// ExtraPools: further pools of the same engine, each with its own startup profile (once(Once) then Const more
	// instances over ConstMs) and a shared finite profile; ids are numbered per pool.
	ExtraPools []ExtraPool `json:"extra_pools,omitempty"`
	// DiscardOverflow: the pool setting discard_overflow (true is what the CLI sets by default) of every pool of the engine.
	// It is about SHOTS (docs/eng/best_practices/discard-overflow.md: requests that are 2 s behind the request schedule are
	// discarded); the startup profile says how many instances there will be (docs/eng/startup.md) and has no such rule:
	// a startup token is served however late it is.
	DiscardOverflow bool `json:"discard_overflow,omitempty"`
	// SlowFirstMs > 0: creating the FIRST instance of the judged pool takes that long - SlowFirstAt "factory": the gun
	// constructor of that instance, "bind": Gun.Bind of instance 0 (a gun that connects / logs in there). The pool creates
	// its first instance synchronously, so the start loop is that far behind the startup profile afterwards and the tokens
	// that became due meanwhile are served late (2 s and more when SlowFirstMs >= 2000). Modes other than shared_outlasts.
	SlowFirstMs int    `json:"slow_first_instance_ms,omitempty"`
	SlowFirstAt string `json:"slow_first_instance_at,omitempty"`
}

// slowBind makes Gun.Bind of instance 0 take d; it keeps the gun's io.Closer, and its warmup.WarmedUp when warm is set.
type slowBind struct {
	d    time.Duration
	warm bool
	mu   sync.Mutex
	span [2]time.Time
}

func (s *slowBind) wrap(f func() (core.Gun, error)) func() (core.Gun, error) {
	return func() (core.Gun, error) {
		g, err := f()
		if err != nil {
			return nil, err
		}
		if s.warm {
			return slowBindWarmGun{slowBindGun{g, s}}, nil
		}
		return slowBindGun{g, s}, nil
	}
}

func (s *slowBind) measured() (from, to time.Time) {
	s.mu.Lock()
	defer s.mu.Unlock()
	return s.span[0], s.span[1]
}

type slowBindGun struct {
	core.Gun
	s *slowBind
}

func (g slowBindGun) Bind(a core.Aggregator, deps core.GunDeps) error {
	if deps.InstanceID == 0 {
		from := time.Now()
		time.Sleep(g.s.d)
		g.s.mu.Lock()
		g.s.span = [2]time.Time{from, time.Now()}
		g.s.mu.Unlock()
	}
	return g.Gun.Bind(a, deps)
}

func (g slowBindGun) Close() error {
	if c, ok := g.Gun.(io.Closer); ok {
		return c.Close()
	}
	return nil
}

type slowBindWarmGun struct{ slowBindGun }

func (g slowBindWarmGun) WarmUp(o *warmup.Options) (interface{}, error) {
	return g.Gun.(warmup.WarmedUp).WarmUp(o)
}

// ExtraPool is a sibling pool of the judged pool.
type ExtraPool struct {
	Once    int `json:"once"`
	Const   int `json:"const,omitempty"`
	ConstMs int `json:"const_ms,omitempty"`
	Shots   int `json:"shots"`
}

func (e ExtraPool) tokens() int { return e.Once + e.Const }

// SharedPart is one short part at the beginning of the pool-wide RPS profile.
type SharedPart struct {
	Kind   string `json:"kind"`             // unlimited | const | once | pause
	Tokens int    `json:"tokens,omitempty"` // const, once
	DurMs  int    `json:"duration_ms,omitempty"`
}

func (c Case) sharedComposite() bool { return len(c.SharedHead) > 0 || c.SharedTail != "" }

// unknownLength: some part of the shared profile is `unlimited`.
func (c Case) unknownLength() bool {
	for _, p := range c.SharedHead {
		if p.Kind == "unlimited" {
			return true
		}
	}
	return c.SharedTail == "unlimited"
}

func (c Case) validateShared() error {
	if !c.sharedComposite() {
		return nil
	}
	if (c.Mode != "long" && c.Mode != "ammo_short") || c.Buffered {
		return fmt.Errorf("bad case: shared_rps_head / shared_rps_tail belong to the modes long and ammo_short without buffered_ammo")
	}
	if c.SharedTail != "" && c.SharedTail != "unlimited" {
		return fmt.Errorf("bad case: shared_rps_tail %q", c.SharedTail)
	}
	for i, p := range c.SharedHead {
		ok := false
		switch p.Kind {
		case "unlimited", "pause":
			ok = p.DurMs >= 1 && p.Tokens == 0
		case "const":
			ok = p.DurMs >= 1 && p.Tokens >= 1
		case "once":
			ok = p.Tokens >= 1 && p.DurMs == 0
		}
		if !ok || p.DurMs > 1000 || p.Tokens > 1000 {
			return fmt.Errorf("bad case: shared_rps_head part %d: %+v", i, p)
		}
	}
	if c.unknownLength() && c.ShotUs < 100 {
		return fmt.Errorf("bad case: an unlimited shared profile needs shots that take time (shot_us >= 100)")
	}
	return nil
}

// sharedSchedule builds the composite; tail is the part that outlasts the run.
func (c Case) sharedSchedule(tail core.Schedule) core.Schedule {
	var parts []core.Schedule
	for _, p := range c.SharedHead {
		d := time.Duration(p.DurMs) * time.Millisecond
		switch p.Kind {
		case "unlimited":
			parts = append(parts, schedule.NewUnlimited(d))
		case "pause":
			parts = append(parts, schedule.NewConst(0, d))
		case "const":
			parts = append(parts, schedule.NewConst((float64(p.Tokens)+0.25)/d.Seconds(), d))
		case "once":
			parts = append(parts, schedule.NewOnce(int64(p.Tokens)))
		}
	}
	if c.SharedTail == "unlimited" {
		tail = schedule.NewUnlimited(120 * time.Second)
	}
	return schedule.NewComposite(append(parts, tail)...)
}

// genShared draws the shape of the shared profile - `unlimited` alone, 1-2 short parts and an unlimited tail, or 1-2 short
// parts of which one is `unlimited` and a const or unlimited tail - so that at least one part is `unlimited`.
func genShared(t *rapid.T, c *Case) {
	shape := rapid.SampledFrom([]string{"alone", "head+unlimited", "head+unlimited", "unlimited_in_head+const", "unlimited_in_head+const", "unlimited_in_head+unlimited"}).Draw(t, "sharedShape")
	n := 0
	if shape != "alone" {
		n = rapid.IntRange(1, 2).Draw(t, "sharedHeadParts")
	}
	forced := -1
	if shape == "unlimited_in_head+const" || shape == "unlimited_in_head+unlimited" {
		forced = rapid.IntRange(0, n-1).Draw(t, "sharedUnlimitedAt")
	}
	for i := 0; i < n; i++ {
		p := SharedPart{Kind: "unlimited"}
		if i != forced {
			p.Kind = rapid.SampledFrom([]string{"unlimited", "const", "const", "once", "once", "pause"}).Draw(t, "sharedPart")
		}
		switch p.Kind {
		case "unlimited", "pause":
			p.DurMs = rapid.IntRange(1, 40).Draw(t, "sharedPartMs")
		case "const":
			p.DurMs = rapid.IntRange(1, 40).Draw(t, "sharedPartMs")
			p.Tokens = rapid.IntRange(1, 12).Draw(t, "sharedPartTokens")
		case "once":
			p.Tokens = rapid.IntRange(1, 12).Draw(t, "sharedPartTokens")
		}
		c.SharedHead = append(c.SharedHead, p)
	}
	if shape != "unlimited_in_head+const" {
		c.SharedTail = "unlimited"
	}
	// an unlimited part hands out a token whenever it is asked: the shots have to take time
	if c.ShotUs < 300 {
		c.ShotUs = 300
	}
}

var suOpts = sg.Opts{MaxDepth: 2, MaxChildren: 3, MaxLeafTok: 4, MinDur: time.Millisecond, MaxDur: 40 * time.Millisecond}

func startupTokens(n sg.Node) int {
	_, _, tot, _ := sg.Chain(sg.Flatten(n), time.Unix(1, 0))
	return tot
}

func genCase(t *rapid.T) Case {
	c := Case{FactoryErrAt: -1, Ammo: -1}
	for i := 0; i < 20; i++ {
		c.Startup = sg.GenTree(t, suOpts, 0)
		if n := startupTokens(c.Startup); n >= 1 && n <= 20 {
			break
		}
		c.Startup = sg.Node{Kind: "istep", From: 1, To: 4, Step: 1, DurNs: int64(5 * time.Millisecond)}
	}
	c.Mode = rapid.SampledFrom([]string{"long", "long", "shared_outlasts", "shared_short", "per_instance", "ammo_short"}).Draw(t, "mode")
	c.RPSTokens = rapid.IntRange(1, 40).Draw(t, "rpsTokens")
	c.ShotUs = rapid.SampledFrom([]int{0, 100, 1000}).Draw(t, "shotUs")
	if c.Mode == "ammo_short" {
		c.Ammo = rapid.IntRange(0, 30).Draw(t, "ammo")
	}
	if (c.Mode == "long" || c.Mode == "ammo_short") && rapid.IntRange(0, 2).Draw(t, "sharedUnknownLength") == 0 {
		genShared(t, &c)
	}
	// mode long: one case of three has the composite profile above; of the others one of two is buffered (the share of buffered cases stays)
	bufferedOf := 3
	if c.Mode == "long" {
		bufferedOf = 2
	}
	if !c.sharedComposite() && (c.Mode == "long" || c.Mode == "per_instance") && rapid.IntRange(1, bufferedOf).Draw(t, "buffered") == 1 {
		c.Buffered = true
		if c.Mode == "long" {
			// shared 100/s profile, cancelled at most ~15.5 s after the start: never more than ~1600 shots
			c.Ammo = rapid.IntRange(3000, 4000).Draw(t, "bufferedAmmo")
		} else {
			// every instance shoots at most RPSTokens times
			c.Ammo = startupTokens(c.Startup)*c.RPSTokens + rapid.IntRange(1, 40).Draw(t, "spareAmmo")
		}
	}
	if rapid.IntRange(0, 7).Draw(t, "factoryFail") == 0 {
		c.FactoryErrAt = rapid.IntRange(1, startupTokens(c.Startup)).Draw(t, "factoryErrAt")
	}
	// the engine starts the profile itself (as in every real run), in half of those cases behind a gun warm-up
	if c.Mode != "shared_outlasts" && rapid.IntRange(0, 2).Draw(t, "implicitStart") != 0 {
		c.ImplicitStart = true
		c.WarmUpMs = rapid.SampledFrom([]int{0, 0, 10, 30, 60}).Draw(t, "warmUpMs")
	}
	// sibling pools with their own startup profiles
	if rapid.IntRange(0, 3).Draw(t, "extraPools") == 0 {
		n := rapid.IntRange(1, 2).Draw(t, "nExtra")
		for i := 0; i < n; i++ {
			e := ExtraPool{Once: rapid.IntRange(1, 4).Draw(t, "extraOnce"), Shots: rapid.IntRange(1, 30).Draw(t, "extraShots")}
			if rapid.Bool().Draw(t, "extraConst") {
				e.Const = rapid.IntRange(1, 4).Draw(t, "extraConstN")
				e.ConstMs = rapid.IntRange(2, 30).Draw(t, "extraConstMs")
			}
			c.ExtraPools = append(c.ExtraPools, e)
		}
	}
	// discard_overflow: on in two cases of three (the CLI default)
	c.DiscardOverflow = rapid.IntRange(0, 2).Draw(t, "discardOverflow") != 0
	// the first instance is slow to create (not in the mode with the 60 ms margin): one case of five of the modes in
	// which nothing may cut the start short, one of twelve of the modes in which ammo / the shared profile end it
	slowOf := 0
	switch c.Mode {
	case "long", "per_instance":
		slowOf = 5
	case "ammo_short", "shared_short":
		slowOf = 12
	}
	if slowOf > 0 && rapid.IntRange(1, slowOf).Draw(t, "slowFirst") == 1 {
		c.SlowFirstAt = rapid.SampledFrom([]string{"factory", "bind"}).Draw(t, "slowFirstAt")
		if rapid.IntRange(0, 3).Draw(t, "slowFirstBelow2s") == 0 {
			c.SlowFirstMs = rapid.IntRange(200, 1500).Draw(t, "slowFirstMs")
		} else {
			c.SlowFirstMs = rapid.IntRange(2300, 3300).Draw(t, "slowFirstMs")
		}
		// in half of them the profile goes on behind a pause with 1-3 more instances: tokens that become due late in the
		// creation of the first instance (at most 1.9 s overdue when it is done) or up to 0.3 s after it - a ramp of which
		// only the beginning is 2 s and more overdue
		if rapid.Bool().Draw(t, "slowFirstLateTokens") {
			more := rapid.IntRange(1, 3).Draw(t, "lateTokens")
			pause := rapid.IntRange(200, 1500).Draw(t, "latePauseMs")
			if c.SlowFirstMs >= 2000 {
				pause = c.SlowFirstMs - 1900 + rapid.IntRange(0, 2200).Draw(t, "latePauseOverMs")
			}
			c.Startup = sg.Node{Kind: "composite", Children: []sg.Node{c.Startup,
				{Kind: "const", From: 0, DurNs: int64(pause) * int64(time.Millisecond)}, {Kind: "once", N: int64(more)}}}
			if c.Buffered && c.Mode == "per_instance" {
				c.Ammo += more * c.RPSTokens
			}
		}
	}
	return c
}

func check(c Case, o *vf.Obs) error {
	leaves := sg.Flatten(c.Startup)
	_, _, total, err := sg.Chain(leaves, time.Unix(1, 0))
	if err != nil {
		return err
	}
	if err := c.validateShared(); err != nil {
		return err
	}
	su := sg.Build(c.Startup)
	plan := fake.ProviderPlan{Total: c.Ammo, Queue: 0, AfterLast: "wait_ctx"}
	if c.Buffered {
		if c.Ammo < 1 || (c.Mode != "long" && c.Mode != "per_instance") {
			return fmt.Errorf("bad case: buffered_ammo needs a finite ammo count and mode long or per_instance")
		}
		plan = fake.ProviderPlan{Total: c.Ammo, Queue: c.Ammo, AfterLast: "return"}
	}
	prov := fake.NewProvider(plan)
	if c.WarmUpMs < 0 || c.WarmUpMs > 1000 || (c.WarmUpMs > 0 && !c.ImplicitStart) || (c.ImplicitStart && c.Mode == "shared_outlasts") {
		return fmt.Errorf("bad case: warmup_ms / implicit_start")
	}
	if c.SlowFirstMs < 0 || c.SlowFirstMs > 5000 || (c.SlowFirstMs > 0) != (c.SlowFirstAt == "factory" || c.SlowFirstAt == "bind") ||
		(c.SlowFirstMs == 0 && c.SlowFirstAt != "") || (c.SlowFirstMs > 0 && c.Mode == "shared_outlasts") {
		return fmt.Errorf("bad case: slow_first_instance_ms / slow_first_instance_at")
	}
	gunPlan := fake.GunPlan{ShotUs: []int{c.ShotUs}, PanicAtShot: -1, FactoryErrAt: c.FactoryErrAt, BindErrAt: -1, Closer: true,
		WarmUp: c.WarmUpMs > 0, WarmUpDelayUs: c.WarmUpMs * 1000}
	if c.SlowFirstAt == "factory" {
		// factory call 0 makes the gun the pool warms up, call 1 the gun of the first instance
		gunPlan.FactoryDelayAt, gunPlan.FactoryDelayUs = 1, c.SlowFirstMs*1000
	}
	guns := fake.NewGunWorld(gunPlan)
	newGun := guns.Factory
	var slowB *slowBind
	if c.SlowFirstAt == "bind" {
		slowB = &slowBind{d: time.Duration(c.SlowFirstMs) * time.Millisecond, warm: gunPlan.WarmUp}
		newGun = slowB.wrap(guns.Factory)
	}
	aggr := fake.NewAggregator(fake.AggPlan{})
	m := pand.Metrics()
	var shared *fake.Sched
	var startupSpan time.Duration
	{
		ps, fin, _, _ := sg.Chain(leaves, time.Unix(1, 0))
		_ = ps
		startupSpan = fin.Sub(time.Unix(1, 0))
	}
	newSched := func() (core.Schedule, error) {
		switch c.Mode {
		case "long", "ammo_short":
			if c.Buffered {
				return schedule.NewConst(100, 120*time.Second), nil
			}
			if c.sharedComposite() {
				return c.sharedSchedule(schedule.NewConst(3000, 120*time.Second)), nil
			}
			return schedule.NewConst(3000, 120*time.Second), nil
		case "shared_outlasts":
			d := startupSpan + 60*time.Millisecond
			shared = fake.WrapSched(schedule.NewConst((float64(c.RPSTokens)+0.25)/d.Seconds(), d))
			return shared, nil
		case "shared_short":
			shared = fake.WrapSched(schedule.NewOnce(int64(c.RPSTokens)))
			return shared, nil
		case "per_instance":
			d := 10 * time.Millisecond
			return schedule.NewConst((float64(c.RPSTokens)+0.25)/d.Seconds(), d), nil
		}
		return nil, fmt.Errorf("bad mode")
	}
	conf := engine.Config{Pools: []engine.InstancePoolConfig{{
		ID: "p", Provider: prov, Aggregator: aggr, NewGun: newGun,
		RPSPerInstance: c.Mode == "per_instance", NewRPSSchedule: newSched, StartupSchedule: su,
		DiscardOverflow: c.DiscardOverflow,
	}}}
	var extraGuns []*fake.GunWorld
	for i, e := range c.ExtraPools {
		if e.Once < 1 || e.tokens() > 40 || e.Shots < 1 || (e.Const > 0) != (e.ConstMs > 0) {
			return fmt.Errorf("bad case: extra pool %d: %+v", i, e)
		}
		e := e
		w := fake.NewGunWorld(fake.GunPlan{ShotUs: []int{50}, PanicAtShot: -1, FactoryErrAt: -1, BindErrAt: -1, Closer: true})
		extraGuns = append(extraGuns, w)
		var esu core.Schedule = schedule.NewOnce(int64(e.Once))
		if e.Const > 0 {
			d := time.Duration(e.ConstMs) * time.Millisecond
			esu = schedule.NewComposite(esu, schedule.NewConst((float64(e.Const)+0.25)/d.Seconds(), d))
		}
		pool := engine.InstancePoolConfig{
			ID: fmt.Sprintf("x%d", i), Provider: fake.NewProvider(fake.ProviderPlan{Total: -1, Queue: 0, AfterLast: "wait_ctx"}),
			Aggregator: fake.NewAggregator(fake.AggPlan{}), NewGun: w.Factory, RPSPerInstance: true,
			NewRPSSchedule:  func() (core.Schedule, error) { return schedule.NewOnce(int64(e.Shots)), nil },
			StartupSchedule: esu, DiscardOverflow: c.DiscardOverflow,
		}
		// siblings go first or last in the engine's list
		if i%2 == 0 {
			conf.Pools = append([]engine.InstancePoolConfig{pool}, conf.Pools...)
		} else {
			conf.Pools = append(conf.Pools, pool)
		}
	}
	eng := engine.New(pand.NopLog(), m, conf)
	ctx, cancel := context.WithCancel(context.Background())
	defer cancel()
	// shared_outlasts compares two instants that are 60 ms apart by construction: believed only on a machine that did
	// not wake this process's sleepers more than 25 ms late meanwhile (vf.LoadProbe)
	var probe *vf.LoadProbe
	if c.Mode == "shared_outlasts" {
		probe = vf.StartLoadProbe()
	}
	stopProbe := func() time.Duration {
		if probe == nil {
			return 0
		}
		p := probe
		probe = nil
		return p.Stop()
	}
	defer stopProbe()
	t0 := time.Now()
	if !c.ImplicitStart {
		su.Start(t0)
	}
	var runErr error
	done := make(chan struct{})
	go func() { runErr = eng.Run(ctx); close(done) }()
	var cancelAt time.Time
	finishedBeforeCancel := int64(-1)
	// instances of the judged pool (the engine's metrics count all pools): guns bound / guns closed
	mainBound := func() int {
		n := 0
		for _, g := range guns.GunsSnapshot() {
			if g.Bound.Load() {
				n++
			}
		}
		return n
	}
	mainClosed := func() int64 {
		n := int64(0)
		for _, g := range guns.GunsSnapshot() {
			if g.Bound.Load() && g.ClosedAt.Load() != 0 {
				n++
			}
		}
		return n
	}
	if c.Mode == "long" {
		// wait (generously) until every startup token became an instance, or the run ended by itself
		deadline := time.Now().Add(15 * time.Second)
		for mainBound() < total && time.Now().Before(deadline) {
			select {
			case <-done:
				deadline = time.Now()
			default:
				time.Sleep(300 * time.Microsecond)
			}
		}
		time.Sleep(2 * time.Millisecond)
		finishedBeforeCancel = mainClosed()
		cancelAt = time.Now()
		cancel()
	}
	select {
	case <-done:
	case <-time.After(30 * time.Second):
		return fmt.Errorf("Engine.Run did not return within 30s")
	}
	eng.Wait()
	if c.ImplicitStart {
		// the engine started the profile with its first draw: not before Run was called (t0) and not before the
		// warm-up returned; token times computed from that instant are lower bounds of the real ones
		for _, sp := range guns.StepSpans() {
			if sp.Kind == "warmup" && sp.End.After(t0) {
				t0 = sp.End
			}
		}
		if c.WarmUpMs > 0 && guns.WarmUps == 0 {
			return fmt.Errorf("harness: the gun's WarmUp was never called")
		}
	}
	parts, _, _, _ := sg.Chain(leaves, t0)
	var tokenTimes []time.Time
	for _, p := range parts {
		tokenTimes = append(tokenTimes, p.Tokens...)
	}
	// --- how far behind the startup profile the creation of the first instance left the start loop (measured) ---
	var lagFrom, lagTo time.Time
	if c.SlowFirstAt == "factory" {
		for _, sp := range guns.StepSpans() {
			if sp.Kind == "factory" && sp.Call == 1 {
				lagFrom, lagTo = sp.Start, sp.End
			}
		}
	} else if slowB != nil {
		lagFrom, lagTo = slowB.measured()
	}
	if c.SlowFirstMs > 0 && lagTo.IsZero() && runErr == nil && len(guns.GunsSnapshot()) > 1 {
		return fmt.Errorf("harness: the slow creation of the first instance (%s, %d ms) never took place", c.SlowFirstAt, c.SlowFirstMs)
	}
	// tokens behind the first one that were 2 s and more overdue when the first instance was there / that were not yet
	// (50 ms of margin: with implicit_start t0 is a lower bound of the profile's clock)
	overdue2s, notOverdue2s := 0, 0
	lagNote := ""
	if !lagTo.IsZero() && len(tokenTimes) > 0 {
		for _, tt := range tokenTimes[1:] {
			if !tt.After(lagTo.Add(-2*time.Second - 50*time.Millisecond)) {
				overdue2s++
			} else if tt.After(lagTo.Add(-2 * time.Second)) {
				notOverdue2s++
			}
		}
		lagNote = fmt.Sprintf("; creating the first instance took %v (%s, until t0+%v): %d of the other %d startup tokens were 2s and more overdue by then, discard_overflow=%v - which is about shots that are behind the request schedule; startup tokens become instances however late they are served",
			lagTo.Sub(lagFrom).Round(time.Millisecond), c.SlowFirstAt, lagTo.Sub(t0).Round(time.Millisecond), overdue2s, len(tokenTimes)-1, c.DiscardOverflow)
	}
	// --- sibling pools: ids are numbered per pool ---
	extraInstances := 0
	for i, w := range extraGuns {
		var xids []int
		for _, g := range w.GunsSnapshot() {
			if g.Bound.Load() {
				xids = append(xids, g.Deps.InstanceID)
			}
		}
		sort.Ints(xids)
		for k, id := range xids {
			if id != k {
				return fmt.Errorf("pool x%d (one of %d pools of the engine): instance ids are %v: expected distinct ids numbered consecutively from 0 within the pool",
					i, len(conf.Pools), xids)
			}
		}
		if len(xids) > c.ExtraPools[i].tokens() {
			return fmt.Errorf("pool x%d: %d instances were started, its startup profile has only %d tokens", i, len(xids), c.ExtraPools[i].tokens())
		}
		if c.Mode != "long" && runErr == nil && len(xids) != c.ExtraPools[i].tokens() {
			return fmt.Errorf("pool x%d: %d instances started, its startup profile has %d tokens; profiles are per instance, ammo is unlimited, nothing failed, nobody cancelled",
				i, len(xids), c.ExtraPools[i].tokens())
		}
		extraInstances += len(xids)
	}
	started := int(m.InstanceStart.Get()) - extraInstances
	factoryFailed := guns.Reached("factory")
	if c.Buffered {
		if !prov.RunReturned.Load() {
			return fmt.Errorf("harness: the buffered provider's Run did not return")
		}
		if len(prov.Delivered()) >= c.Ammo {
			// cannot happen by the sizes chosen in genCase; if it does, ammo did run out and nothing below applies
			o.Class("buffered_ammo_ran_out_not_judged")
			return nil
		}
	}
	// --- ids ---
	var ids []int
	var created []time.Time
	var bound []*fake.Gun
	for _, g := range guns.Guns {
		if g.Bound.Load() {
			ids = append(ids, g.Deps.InstanceID)
			created = append(created, g.CreatedAt)
			bound = append(bound, g)
		}
	}
	sort.Ints(ids)
	if !factoryFailed {
		for i, id := range ids {
			if id != i {
				return fmt.Errorf("instance ids are %v: expected distinct ids numbered consecutively from 0", ids)
			}
		}
		if len(ids) != started {
			return fmt.Errorf("%d guns were bound but InstanceStart=%d", len(ids), started)
		}
	} else {
		seen := map[int]bool{}
		for _, id := range ids {
			if seen[id] || id < 0 || id >= total {
				return fmt.Errorf("instance ids %v: duplicate or out of range 0..%d", ids, total-1)
			}
			seen[id] = true
		}
	}
	if len(ids) > total {
		return fmt.Errorf("%d instances were started, the startup profile has only %d tokens", len(ids), total)
	}
	// --- never more instances than tokens released by that moment ---
	sort.Slice(created, func(i, j int) bool { return created[i].Before(created[j]) })
	for k, at := range created {
		if at.Before(tokenTimes[k]) {
			return fmt.Errorf("instance #%d (by creation order) was created at t0+%v, but the startup profile releases its token #%d only at t0+%v",
				k, at.Sub(t0), k, tokenTimes[k].Sub(t0))
		}
	}
	// --- all tokens become instances unless cut short ---
	switch c.Mode {
	case "long":
		if !factoryFailed && started != total {
			if c.Buffered {
				return fmt.Errorf("%d instances started, the startup profile has %d tokens (last one at t0+%v) and nothing cut the start short: the provider's Run returned at t0+%v after queueing all %d ammo, of which only %d were taken (ammo did not run out), 120s shared profile, cancel only after waiting 15s%s",
					started, total, tokenTimes[len(tokenTimes)-1].Sub(t0), time.Unix(0, prov.RunReturnAt.Load()).Sub(t0), c.Ammo, len(prov.Delivered()), lagNote)
			}
			if c.sharedComposite() {
				return fmt.Errorf("%d instances started, the startup profile has %d tokens (last one at t0+%v) and nothing cut the start short: unbounded ammo, the shared RPS profile (head %+v, then 120s %s) has not finished - an unknown number of tokens left is not 'finished' -, cancel only after waiting 15s%s",
					started, total, tokenTimes[len(tokenTimes)-1].Sub(t0), c.SharedHead, map[string]string{"": "const", "unlimited": "unlimited"}[c.SharedTail], lagNote)
			}
			return fmt.Errorf("%d instances started, the startup profile has %d tokens and nothing cut the start short (unbounded ammo, 120s profile, cancel only after waiting 15s)%s", started, total, lagNote)
		}
		if !factoryFailed && finishedBeforeCancel != 0 {
			return fmt.Errorf("%d instances had already finished before the run was cancelled although ammo and profile were unlimited: the number of running instances was reduced", finishedBeforeCancel)
		}
		if runErr == nil && !factoryFailed {
			return fmt.Errorf("Engine.Run returned nil for a cancelled endless run")
		}
	case "per_instance":
		// every instance has its own finite profile: one of them finishing is no reason to stop starting the others
		if !factoryFailed && started != total && c.Buffered {
			return fmt.Errorf("%d instances started, the startup profile has %d tokens (last one at t0+%v); profiles are per instance (%d tokens over 10ms each), the provider's Run returned at t0+%v after queueing all %d ammo, of which only %d were taken (ammo did not run out), nothing failed, nobody cancelled%s",
				started, total, tokenTimes[len(tokenTimes)-1].Sub(t0), c.RPSTokens, time.Unix(0, prov.RunReturnAt.Load()).Sub(t0), c.Ammo, len(prov.Delivered()), lagNote)
		}
		if !factoryFailed && started != total {
			return fmt.Errorf("%d instances started, the startup profile has %d tokens; profiles are per instance (%d tokens over 10ms each), ammo is unlimited, nothing failed, nobody cancelled: an instance finishing its own profile must not cut the start short (startup lasts %v)%s",
				started, total, c.RPSTokens, startupSpan, lagNote)
		}
	case "shared_outlasts":
		if !factoryFailed && started != total && runErr == nil {
			// the profile is 60ms longer than the startup span; only accept a shortfall when the profile really ended first
			lastTok := tokenTimes[len(tokenTimes)-1]
			exh := rpsExhaustedAt(shared)
			if exh.IsZero() || exh.After(lastTok.Add(20*time.Millisecond)) {
				if late := stopProbe(); late > 25*time.Millisecond {
					// the start loop may have been woken for its next token only after the profile had ended
					o.Class("inconclusive_machine_load")
					o.Note("inconclusive", fmt.Sprintf("%d of %d instances, profile exhausted at t0+%v, sleepers woken up to %v late", started, total, exh.Sub(t0), late))
					return nil
				}
				return fmt.Errorf("%d instances started of %d startup tokens although the shared profile was exhausted only at t0+%v, after the last startup token (t0+%v)",
					started, total, exh.Sub(t0), lastTok.Sub(t0))
			}
		}
	}
	// --- an instance keeps firing until profile/ammo exhausted or cancel ---
	if !factoryFailed {
		var limit time.Time // earliest legitimate reason for any instance to stop
		set := func(t time.Time) {
			if !t.IsZero() && (limit.IsZero() || t.Before(limit)) {
				limit = t
			}
		}
		known := true
		switch c.Mode {
		case "long":
			set(cancelAt)
		case "ammo_short":
			if ns := prov.ExhaustedAt.Load(); ns != 0 {
				set(time.Unix(0, ns))
			} else {
				known = false
			}
		case "shared_outlasts", "shared_short":
			set(rpsExhaustedAt(shared))
			if limit.IsZero() {
				known = false
			}
		default:
			known = false
		}
		if known && !limit.IsZero() {
			for _, g := range bound {
				ca := g.ClosedAt.Load()
				if ca == 0 {
					return fmt.Errorf("gun of instance %d was never closed", g.Deps.InstanceID)
				}
				// wall-clock nanos vs monotonic instants: allow 1ms for the conversion
				if time.Unix(0, ca).Before(limit.Add(-time.Millisecond)) {
					return fmt.Errorf("instance %d stopped at t0+%v, before ammo/profile were exhausted or the run cancelled (earliest such instant t0+%v)",
						g.Deps.InstanceID, time.Unix(0, ca).Sub(t0), limit.Sub(t0))
				}
			}
		}
	}
	// --- a started instance keeps firing with a live gun: cutting the START short (ammo ran out, the shared profile
	// finished) stops new instances only; the context a gun makes its requests with (GunDeps.Ctx) ends with the run ---
	shotsAfterCut := 0
	if c.Mode != "long" && runErr == nil && !factoryFailed {
		for _, sh := range guns.ShotsSnapshot() {
			if sh.CtxDone {
				return fmt.Errorf("instance %d began a shot at t0+%v with its gun's context (GunDeps.Ctx) already cancelled, although the run was neither cancelled nor failed (mode %s: %d of %d startup tokens became instances): a request made with that context fails - a started instance must keep firing until ammo / profile are used up or the run is cancelled",
					sh.Instance, sh.Enter.Sub(t0), c.Mode, started, total)
			}
		}
		if started < total {
			shotsAfterCut = len(guns.ShotsSnapshot())
		}
	}
	if s, f := m.InstanceStart.Get(), m.InstanceFinish.Get(); s != f {
		return fmt.Errorf("InstanceStart=%d InstanceFinish=%d after the run", s, f)
	}
	distinctInstants := map[int64]bool{}
	for _, tt := range tokenTimes {
		distinctInstants[tt.UnixNano()] = true
	}
	o.Class("mode_" + c.Mode)
	o.ClassIf(c.ImplicitStart, "engine_starts_the_profile")
	o.ClassIf(c.ImplicitStart && c.WarmUpMs > 0, "engine_starts_the_profile_after_warmup")
	o.ClassIf(c.ImplicitStart && c.WarmUpMs > 0 && total >= 2 && len(distinctInstants) >= 2 && !factoryFailed,
		"warmup_then_startup_spread_in_time")
	o.ClassIf(c.ImplicitStart && c.WarmUpMs > 0 && total >= 2 && !factoryFailed && tokenTimes[len(tokenTimes)-1].Sub(t0) < time.Duration(c.WarmUpMs)*time.Millisecond && len(distinctInstants) >= 2,
		"warmup_longer_than_startup_spread")
	o.ClassIf(c.DiscardOverflow, "discard_overflow")
	if !lagTo.IsZero() {
		lag := lagTo.Sub(lagFrom)
		mustStart := (c.Mode == "long" || c.Mode == "per_instance") && !factoryFailed
		o.Class("slow_first_instance")
		o.Class("slow_first_instance/" + c.SlowFirstAt)
		o.ClassIf(lag < 2*time.Second, "slow_first_instance_lt_2s")
		o.ClassIf(lag >= 2*time.Second, "slow_first_instance_ge_2s")
		o.ClassIf(overdue2s > 0, "startup_tokens_ge_2s_overdue")
		o.ClassIf(overdue2s > 0 && c.DiscardOverflow, "startup_tokens_ge_2s_overdue_discard_overflow")
		o.ClassIf(overdue2s > 0 && c.DiscardOverflow && mustStart, "startup_tokens_ge_2s_overdue_discard_overflow_all_must_start")
		o.ClassIf(overdue2s > 0 && c.DiscardOverflow && mustStart, "startup_tokens_ge_2s_overdue_discard_overflow_all_must_start/"+c.Mode)
		o.ClassIf(overdue2s > 0 && c.DiscardOverflow && mustStart, "startup_tokens_ge_2s_overdue_discard_overflow_all_must_start/"+c.SlowFirstAt)
		o.ClassIf(overdue2s > 0 && notOverdue2s > 0 && c.DiscardOverflow && mustStart, "startup_tokens_partly_ge_2s_overdue_discard_overflow_all_must_start")
		o.ClassIf(overdue2s > 0 && !c.DiscardOverflow && mustStart, "startup_tokens_ge_2s_overdue_no_discard_overflow_all_must_start")
	}
	o.ClassIf(len(c.ExtraPools) > 0, "several_pools")
	o.ClassIf(extraInstances >= 2 && len(ids) >= 2, "several_pools_ge_2_instances_each")
	o.ClassIf(factoryFailed, "cut_short_creation_failed")
	o.ClassIf(started < total && c.Mode == "ammo_short", "cut_short_ammo")
	o.ClassIf(started < total && c.Mode == "shared_short", "cut_short_rps_end")
	o.ClassIf(started == total, "all_tokens_started")
	o.ClassIf(shotsAfterCut > 0, "start_cut_short_gun_contexts_checked")
	o.ClassIf(c.Mode == "per_instance" && startupSpan > 12*time.Millisecond && total >= 2, "per_instance_profile_shorter_than_startup")
	o.ClassIf(c.Startup.Kind == "composite", "composite_startup")
	o.ClassIf(c.Buffered, "provider_run_returned_early_ammo_left")
	o.ClassIf(c.Buffered, "provider_run_returned_early_ammo_left/"+c.Mode)
	o.ClassIf(c.Buffered && !factoryFailed && total >= 2 && time.Unix(0, prov.RunReturnAt.Load()).Before(tokenTimes[len(tokenTimes)-1]),
		"provider_run_returned_before_last_startup_token")
	if c.sharedComposite() {
		spread := total >= 2 && len(distinctInstants) >= 2
		o.Class("shared_rps_composite_with_endless_tail")
		o.ClassIf(c.unknownLength(), "shared_rps_unknown_length")
		o.ClassIf(c.unknownLength(), "shared_rps_unknown_length/"+c.Mode)
		o.ClassIf(c.unknownLength() && spread, "shared_rps_unknown_length_startup_spread_in_time")
		o.ClassIf(c.unknownLength() && spread && c.Mode == "long" && !factoryFailed, "shared_rps_unknown_length_all_spread_tokens_must_start")
		o.ClassIf(c.SharedTail == "unlimited" && len(c.SharedHead) == 0, "shared_rps_unlimited_alone")
		o.ClassIf(c.SharedTail == "unlimited" && len(c.SharedHead) > 0, "shared_rps_composite_unlimited_tail")
		o.ClassIf(c.SharedTail == "" && len(c.SharedHead) > 0, "shared_rps_composite_unlimited_head_const_tail")
		for _, p := range c.SharedHead {
			o.Class("shared_rps_head_" + p.Kind)
		}
	}
	if total >= 2 && len(distinctInstants) >= 2 {
		o.NonTrivial()
	}
	o.Note("startup_tokens", total)
	o.Note("started", started)
	return nil
}

// rpsExhaustedAt: lower bound of the instant the shared profile handed out its last token.
func rpsExhaustedAt(s *fake.Sched) time.Time {
	if s == nil {
		return time.Time{}
	}
	var last time.Time
	for _, r := range s.Log() {
		if r.OK && r.Before.After(last) {
			last = r.Before
		}
	}
	left := s.Schedule.Left()
	if left != 0 {
		return time.Time{}
	}
	return last
}

func TestStartup(t *testing.T) {
	r := vf.Start(t, "C12")
	// sleep-bound cases: run in parallel batches; the count per process comes from the tier
	vf.Batch(r, r.Pick(128, 1500), 24, genCase, check)
}
