package c05

import (
	"testing"

	"verif/harness/internal/fake"
	"verif/harness/internal/vf"
)

// findingWrappedCancellation (repaired in /repo; this is its regression case, judged by the ordinary oracle): a pool
// ends its work while its (real http) provider is still initialising a middleware or preloading its file; the engine
// cancels the provider, whose Run returned that cancellation wrapped with %w ("cant LoadAmmo, err: context canceled");
// the engine recognises its own cancellation only by pkg/errors.Cause and reported "provider failed" - for a run in
// which nothing failed and nobody cancelled.
const findingWrappedCancellation = "engine-own-cancel-wrapped-by-provider-fails-run" // id in known_findings.json

// wrappedCancellationCase: one pool, one instance, a profile without a single shot (`once`, 0 times), a well-formed
// uri file of 10000 lines read with preload.
func wrappedCancellationCase(viaMiddleware bool) Case {
	rp := &RealProvPlan{Format: "uri", Good: 10000, Preload: true, Passes: 1}
	if viaMiddleware {
		rp = &RealProvPlan{Format: "uri", Good: 3, Preload: false, Passes: 1, InitUs: 20000}
	}
	return Case{Repeat: 3, Pools: []PoolCase{{
		Instances: 1, Profile: "once", Tokens: 0, SchedErrAt: -1, Real: rp, Prov: fake.ProviderPlan{Total: rp.total()},
		Gun: fake.GunPlan{ShotUs: []int{0}, PanicAtShot: -1, FactoryErrAt: -1, BindErrAt: -1},
	}}}
}

func TestKnownWitness(t *testing.T) {
	r := vf.Start(t, "C05")
	for _, viaMiddleware := range []bool{false, true} {
		c := wrappedCancellationCase(viaMiddleware)
		o := &vf.Obs{}
		err := vf.Guard(func() error { return check(c, o) })
		o.Class("witness_wrapped_cancellation")
		r.Record(c, o, err)
		if err != nil {
			t.Errorf("witness (middleware: %v): %v", viaMiddleware, err)
		}
	}
}
