// C05 — run outcome and termination at every finish, failure and cancel point.
//
// Oracle: the doubles record which injected fault was actually reached; the
// engine's result must carry a reached fault (never nil), be nil when nothing
// failed, be the context error after an in-progress cancel, and everything the
// engine started must stop - by the engine's own doing: the harness cancels its
// context only where the case says so (after the failure of one pool next to
// pools that would shoot for a minute nobody but the engine stops them), and
// "closable guns are closed" is judged at the instant Run returns nil / Wait
// returns, with guns whose Close takes 1-50 ms.
package c05

import (
	"context"
	"errors"
	"fmt"
	"runtime"
	"runtime/debug"
	"strings"
	"sync"
	"sync/atomic"
	"testing"
	"time"

	"verif/harness/internal/fake"
	"verif/harness/internal/pand"
	"verif/harness/internal/vf"

	"github.com/yandex/pandora/core"
	"github.com/yandex/pandora/core/engine"
	"github.com/yandex/pandora/core/schedule"
	"pgregory.net/rapid"
)

type PoolCase struct {
	Instances     int               `json:"instances"`
	PerInstance   bool              `json:"rps_per_instance"`
	Profile       string            `json:"profile"` // once | const | long
	Tokens        int               `json:"tokens"`
	Prov          fake.ProviderPlan `json:"provider"`
	Gun           fake.GunPlan      `json:"gun"`
	Agg           fake.AggPlan      `json:"aggregator"`
	SchedErrAt    int               `json:"sched_factory_err_at"` // NewRPSSchedule call index that fails, -1 none
	SchedFaultUs  int               `json:"sched_fault_delay_us"`
	DiscardOnPool bool              `json:"discard_overflow"`
	// IDMode: "" the harness's unique name pool<i> | "default" no id (the engine names it pool_<i>) | "name" the
	// free-form ID below. Nothing in pandora requires the ids of an engine's pools to differ.
	IDMode string `json:"id_mode,omitempty"`
	ID     string `json:"id,omitempty"`
	// plain (non-fault) slowness of schedule creation: NewRPSSchedule call SchedDelayAt (-1 = every call) sleeps
	// SchedDelayUs without looking at any context
	SchedDelayUs int `json:"sched_delay_us,omitempty"`
	SchedDelayAt int `json:"sched_delay_at,omitempty"`
	// Real: the pool's ammo comes from pandora's real http provider reading this file (Prov then only carries Total,
	// the number of ammo the file can deliver, -1 = no end); nil = the recording double described by Prov.
	Real *RealProvPlan `json:"real_provider,omitempty"`
}

// effectiveID is the name the engine knows pool i by.
func (p PoolCase) effectiveID(i int) string {
	switch p.IDMode {
	case "default":
		return fmt.Sprintf("pool_%d", i)
	case "name":
		if p.ID == "" {
			return fmt.Sprintf("pool_%d", i)
		}
		return p.ID
	}
	return fmt.Sprintf("pool%d", i)
}

func (p PoolCase) configID(i int) string {
	switch p.IDMode {
	case "default":
		return ""
	case "name":
		return p.ID
	}
	return fmt.Sprintf("pool%d", i)
}

type Case struct {
	Pools         []PoolCase `json:"pools"`
	Cancel        string     `json:"cancel"` // "" | before | during
	CancelAfterUs int        `json:"cancel_after_us"`
	Repeat        int        `json:"repeat"`
	// Log: the engine's logger: "" drops everything, "debug" / "info" a logger of that level whose output needs
	// LogWriteUs per entry (paid by the goroutine that logs).
	Log        string `json:"log,omitempty"`
	LogWriteUs int    `json:"log_write_us,omitempty"`
}

func genPool(t *rapid.T, faulty, crowd bool) PoolCase {
	p := PoolCase{SchedErrAt: -1}
	p.Instances = rapid.IntRange(1, 4).Draw(t, "instances")
	p.PerInstance = rapid.Bool().Draw(t, "perInstance")
	p.Profile = rapid.SampledFrom([]string{"once", "once", "const", "long"}).Draw(t, "profile")
	p.Tokens = rapid.IntRange(0, 30).Draw(t, "tokens")
	p.DiscardOnPool = rapid.Bool().Draw(t, "discard")
	p.Prov = fake.ProviderPlan{
		Total:     rapid.SampledFrom([]int{-1, -1, 0, 1, 5, 40}).Draw(t, "ammo"),
		Queue:     rapid.SampledFrom([]int{0, 1, 16}).Draw(t, "queue"),
		AfterLast: rapid.SampledFrom([]string{"return", "wait_ctx", "wait_ctx_err"}).Draw(t, "afterLast"),
		AcquireUs: rapid.SampledFrom([]int{0, 0, 50}).Draw(t, "acqUs"),
	}
	if p.Profile == "long" && p.Prov.Total < 0 {
		// endless pool: only a fault or a cancel can end it
	}
	p.Gun = fake.GunPlan{
		ShotUs:      rapid.SliceOfN(rapid.SampledFrom([]int{0, 0, 100, 1000}), 1, 3).Draw(t, "shotUs"),
		PanicAtShot: -1, FactoryErrAt: -1, BindErrAt: -1,
		WarmUp: rapid.Bool().Draw(t, "warmup"),
		Closer: rapid.IntRange(0, 3).Draw(t, "closer") != 0,
	}
	if p.Gun.Closer && rapid.IntRange(0, 2).Draw(t, "slowClose") == 0 {
		// Close of a gun is not instantaneous (flushes a log, closes connections): 1-50 ms, per instance, some instant
		p.Gun.CloseDelayUs = rapid.SliceOfN(rapid.OneOf(rapid.Just(0), rapid.IntRange(1000, 5000), rapid.IntRange(1000, 5000),
			rapid.IntRange(5000, 50000)), 1, 4).Draw(t, "closeDelayUs")
		slow := false
		for _, us := range p.Gun.CloseDelayUs {
			slow = slow || us > 0
		}
		if !slow {
			at := rapid.IntRange(0, len(p.Gun.CloseDelayUs)-1).Draw(t, "closeDelayAt")
			p.Gun.CloseDelayUs[at] = rapid.IntRange(1000, 50000).Draw(t, "closeDelayUs1")
		}
	}
	if !faulty {
		// one healthy pool in ten reads a well-formed file with the real http provider
		if !crowd && rapid.IntRange(0, 9).Draw(t, "realProvider") == 5 {
			genRealProvider(t, &p, false)
		}
		return p
	}
	delay := rapid.SampledFrom([]int{0, 0, 100, 2000, 20000}).Draw(t, "faultDelayUs")
	kinds := []string{"provider", "provider", "aggregator", "aggregator", "factory", "bind", "warmup", "sched", "panic", "panic", "panic", "real_provider", "real_provider"}
	if crowd {
		kinds = kinds[:11]
	}
	switch rapid.SampledFrom(kinds).Draw(t, "faultKind") {
	case "real_provider":
		genRealProvider(t, &p, true)
	case "provider":
		p.Prov.Fault = rapid.SampledFrom([]string{"before_first", "after_k", "at_end"}).Draw(t, "provFault")
		p.Prov.FaultK = rapid.IntRange(0, 6).Draw(t, "provK")
		p.Prov.FaultUs = delay
		p.Prov.ErrShape = rapid.SampledFrom(errShapes).Draw(t, "provErrShape")
	case "aggregator":
		p.Agg.Fault = rapid.SampledFrom([]string{"start", "after_k", "at_end"}).Draw(t, "aggFault")
		p.Agg.FaultK = rapid.IntRange(0, 6).Draw(t, "aggK")
		p.Agg.FaultUs = delay
		p.Agg.ErrShape = rapid.SampledFrom(errShapes).Draw(t, "aggErrShape")
		p.Gun.Reports = 1
	case "factory":
		p.Gun.FactoryErrAt = rapid.IntRange(0, p.Instances).Draw(t, "factoryAt")
		p.Gun.FaultUs = delay
	case "bind":
		p.Gun.BindErrAt = rapid.IntRange(0, p.Instances-1).Draw(t, "bindAt")
		p.Gun.FaultUs = delay
	case "warmup":
		p.Gun.WarmUp, p.Gun.WarmUpErr = true, true
		p.Gun.FaultUs = delay
	case "sched":
		if p.PerInstance {
			p.SchedErrAt = rapid.IntRange(0, p.Instances-1).Draw(t, "schedAt")
		} else {
			p.SchedErrAt = 0
		}
		p.SchedFaultUs = delay
	case "panic":
		p.Gun.PanicAtShot = rapid.IntRange(0, 8).Draw(t, "panicAt")
		p.Gun.PanicKind = rapid.SampledFrom([]string{"", "string", "int", "struct", "bytes", "runtime"}).Draw(t, "panicKind")
	}
	return p
}

// genRealProvider: the pool reads its ammo from a file with the real http provider. failing: the file has a malformed
// entry behind 0-20000 good ones, or no entry at all; with `preload: true` (two in three) the provider then fails before
// its first ammo, after a loading time that grows with the file - the pool's instances start meanwhile and wait in
// Acquire -, without preload it fails after the good entries before the bad one were handed out. Healthy: a
// well-formed file, read 1-2 times or for ever.
func genRealProvider(t *rapid.T, p *PoolCase, failing bool) {
	rp := &RealProvPlan{Format: rapid.SampledFrom([]string{"uri", "uri", "raw", "jsonline"}).Draw(t, "realFormat")}
	rp.Preload = rapid.IntRange(0, 2).Draw(t, "realPreload") != 0
	rp.Passes = rapid.SampledFrom([]int{0, 1, 1, 2}).Draw(t, "realPasses")
	rp.InitUs = rapid.SampledFrom([]int{0, 0, 0, 500, 5000, 20000}).Draw(t, "realInitUs")
	if failing {
		if rapid.IntRange(0, 3).Draw(t, "realNoEntries") == 0 {
			shapes := map[string][]string{"uri": {"empty", "blank_lines", "headers_only"}, "raw": {"empty", "blank_lines"}, "jsonline": {"empty_array"}}
			rp.Empty = rapid.SampledFrom(shapes[rp.Format]).Draw(t, "realEmpty")
		} else {
			bads := map[string][]string{"uri": {"unclosed_header", "bad_url"}, "raw": {"bad_size", "truncated"}, "jsonline": {"broken_json", "wrong_type"}}
			rp.Bad = rapid.SampledFrom(bads[rp.Format]).Draw(t, "realBad")
			rp.Good = rapid.SampledFrom([]int{0, 1, 3, 50, 1000, 10000}).Draw(t, "realGood")
			rp.GoodAfter = rapid.SampledFrom([]int{0, 0, 2}).Draw(t, "realGoodAfter")
		}
	} else {
		rp.Good = rapid.SampledFrom([]int{1, 3, 40, 2000}).Draw(t, "realGood")
	}
	if rp.Format == "uri" && rp.Good+rp.GoodAfter <= 50 && rp.Empty != "empty" {
		rp.Inline = rapid.IntRange(0, 3).Draw(t, "realInline") == 0
	}
	p.Real = rp
	p.Prov = fake.ProviderPlan{Total: rp.total()}
}

// zeroShots: the pool's profile does not hold a single shot.
func (p PoolCase) zeroShots() bool { return p.Profile != "long" && p.Tokens == 0 }

// crowdOneIn: one case in so many has a crowded pool (set per tier by TestOutcome).
var crowdOneIn = 20

// crowdSizes: instance counts of a crowded pool: well beyond the handful the engine's own tests use and beyond any
// fixed-size buffer of results one might expect inside the engine.
var crowdSizes = []int{100, 150, 200, 300, 400, 600}

// genCrowd: pool i has hundreds of instances (the doubles are cheap) and a minute of work, so all of them are there
// when the run is ended from outside or by a failure, and all of them end in one burst: parked in the schedule wait (a
// shared or a per-instance profile of 2000 shots a second in total) or - after a first instant shot - in a request
// that takes 30 s unless the gun's context ends it.
func genCrowd(t *rapid.T, c *Case, i int) {
	p := &c.Pools[i]
	p.Instances = rapid.SampledFrom(crowdSizes).Draw(t, "crowdInstances")
	p.Profile, p.Prov.Total = "long", -1
	// (a shot that is planned to panic must not be one that waits for the end of the run)
	if p.Gun.PanicAtShot < 0 && rapid.Bool().Draw(t, "crowdInShot") {
		p.Gun.ShotUs, p.Gun.ShotCtx = []int{0, 30000000}, true
	}
	if c.Cancel == "" && (p.Prov.Fault == "at_end" || p.Agg.Fault == "at_end") {
		// nobody cancels and the pool's own fault waits for the end of its work, which now never comes
		c.Cancel = "during"
	}
	if c.Cancel != "" {
		// (a cancel before the run would leave the crowd unborn)
		c.Cancel = "during"
		c.CancelAfterUs = rapid.SampledFrom([]int{1000, 3000, 10000, 30000, 100000, 300000}).Draw(t, "crowdCancelAfterUs")
	}
	if rapid.Bool().Draw(t, "crowdLog") {
		c.Log, c.LogWriteUs = "debug", rapid.SampledFrom([]int{0, 20, 100}).Draw(t, "crowdLogWriteUs")
	}
}

// shapes of the error a faulty provider / aggregator returns (fake.shaped)
var errShapes = []string{"", "", "wrapped", "pkg_wrapped", "own_deadline", "own_deadline"}

func genCase(t *rapid.T) Case {
	c := Case{}
	n := rapid.SampledFrom([]int{1, 1, 1, 2, 3}).Draw(t, "pools")
	// one case in ten is a config with many pools (4-8): the engine starts them one after the other, each in its own
	// goroutine, so the run can be over - cancelled, or failed in one pool - before some of them have begun
	many := rapid.IntRange(0, 9).Draw(t, "manyPools") == 4
	if many {
		n = rapid.IntRange(4, 8).Draw(t, "pools")
	}
	mode := rapid.SampledFrom([]string{"fault", "fault", "fault", "cancel", "both", "none"}).Draw(t, "mode")
	faultyPool := rapid.IntRange(0, n-1).Draw(t, "faultyPool")
	// two in three of the failing many-pool runs, and one in eight of the other failing runs with several pools, fail
	// AT ONCE: at a step the faulty pool goes through before it has started anything (see genFailsAtOnce)
	atOnce := false
	if n > 1 && (mode == "fault" || mode == "both") {
		k := rapid.IntRange(0, 23).Draw(t, "failsAtOnce")
		atOnce = (many && k%3 != 0) || (!many && k >= 8 && k <= 10)
	}
	// one case in twenty (quick tier; one in fifty of the 64 times larger thorough tier) has a crowded pool (rapid
	// prefers the ends of a range)
	crowdPool := -1
	if rapid.IntRange(0, crowdOneIn-1).Draw(t, "crowd") == 11 {
		crowdPool = rapid.IntRange(0, n-1).Draw(t, "crowdPool")
	}
	for i := 0; i < n; i++ {
		if atOnce && i == faultyPool {
			p := genPool(t, false, i == crowdPool)
			genFailsAtOnce(t, &p)
			c.Pools = append(c.Pools, p)
			continue
		}
		c.Pools = append(c.Pools, genPool(t, (mode == "fault" || mode == "both") && i == faultyPool, i == crowdPool))
	}
	if mode == "cancel" || mode == "both" {
		c.Cancel = rapid.SampledFrom([]string{"before", "during", "during", "during"}).Draw(t, "cancel")
		c.CancelAfterUs = rapid.SampledFrom([]int{0, 50, 300, 1000, 3000, 10000}).Draw(t, "cancelAfterUs")
	}
	// the engine's logger: mostly the nop one
	if rapid.IntRange(0, 11).Draw(t, "log") == 5 {
		c.Log = rapid.SampledFrom([]string{"debug", "debug", "info"}).Draw(t, "logLevel")
		c.LogWriteUs = rapid.SampledFrom([]int{0, 20, 200}).Draw(t, "logWriteUs")
	}
	// several pools, one fails by itself, nobody cancels: the engine has to stop the others
	unstoppable := false
	if n > 1 && mode == "fault" && rapid.IntRange(0, 2).Draw(t, "unstoppableSibling") != 0 {
		unstoppable = true
		genUnstoppableSiblings(t, &c, faultyPool)
	}
	// a pool that can only be ended from outside needs a cancel or a fault somewhere
	endless := false
	for _, p := range c.Pools {
		if p.endless() {
			endless = true
		}
	}
	if crowdPool >= 0 {
		endless = endless || !c.Pools[crowdPool].endless()
	}
	if endless && c.Cancel == "" && !unstoppable {
		c.Cancel = "during"
		c.CancelAfterUs = rapid.SampledFrom([]int{300, 3000, 10000}).Draw(t, "cancelAfterUs2")
	}
	if crowdPool >= 0 {
		genCrowd(t, &c, crowdPool)
	}
	c.Repeat = 3
	genIDs(t, &c)
	genSlowSteps(t, &c)
	return c
}

// genFailsAtOnce gives a healthy pool a fault plan that fails at the pool's first steps - creation of the warm-up
// gun, WarmUp, creation of a shared schedule, the first Bind, the provider before its first ammo, the aggregator as
// soon as it runs - mostly without any delay: the run is then over while the engine is still starting the other pools.
func genFailsAtOnce(t *rapid.T, p *PoolCase) {
	delay := rapid.SampledFrom([]int{0, 0, 0, 100}).Draw(t, "atOnceDelayUs")
	p.Real = nil
	switch rapid.SampledFrom([]string{"factory", "factory", "warmup", "sched", "bind", "provider", "aggregator"}).Draw(t, "atOnceKind") {
	case "factory":
		p.Gun.FactoryErrAt, p.Gun.FaultUs = 0, delay
	case "warmup":
		p.Gun.WarmUp, p.Gun.WarmUpErr, p.Gun.FaultUs = true, true, delay
	case "sched":
		p.PerInstance, p.SchedErrAt, p.SchedFaultUs = false, 0, delay
	case "bind":
		p.Gun.BindErrAt, p.Gun.FaultUs = 0, delay
	case "provider":
		p.Prov.Fault, p.Prov.FaultUs = "before_first", delay
		p.Prov.ErrShape = rapid.SampledFrom(errShapes).Draw(t, "provErrShape")
	case "aggregator":
		p.Agg.Fault, p.Agg.FaultUs = "start", delay
		p.Agg.ErrShape = rapid.SampledFrom(errShapes).Draw(t, "aggErrShape")
	}
}

// endless: the pool's instances never run out of ammo or schedule within a run of the harness (60 s of schedule,
// unbounded ammo): only a failure or a cancel ends it.
func (p PoolCase) endless() bool { return p.Profile == "long" && p.Prov.Total < 0 }

// genUnstoppableSiblings: the run is ended by the failure of pool `faulty` alone - the caller never cancels - while one
// or all of the other pools would go on for a minute: it is the engine that has to stop them. For that the fault plan
// of the faulty pool must be reached whatever the other pools do:
//   - faults at the first call of a step every pool goes through (provider before its first ammo, aggregator at
//     start, gun factory call 0 = the warm-up probe, WarmUp, Bind 0, schedule factory call 0) always are;
//   - provider / aggregator faults "at the very end" are reached when the pool's own instances have finished: its
//     own work is made finite;
//   - faults after k ammo / k reports, at shot j, at factory / Bind / schedule-factory call i > 0 are reached when
//     the pool's own instances keep shooting and are all started: its own work is made endless as well.
func genUnstoppableSiblings(t *rapid.T, c *Case, faulty int) {
	p := &c.Pools[faulty]
	finite := func() {
		if p.endless() {
			p.Prov.Total = rapid.SampledFrom([]int{0, 1, 5, 40}).Draw(t, "finiteAmmo")
		}
	}
	forever := func() { p.Profile, p.Prov.Total = "long", -1 }
	switch {
	case p.Prov.Fault == "before_first", p.Agg.Fault == "start", p.Gun.WarmUpErr, p.Gun.FactoryErrAt == 0,
		p.Gun.BindErrAt == 0, p.SchedErrAt == 0:
	case p.Prov.Fault == "at_end", p.Agg.Fault == "at_end":
		finite()
	default:
		forever()
	}
	// which of the others cannot end by themselves: one of them, or all
	others := []int{}
	for i := range c.Pools {
		if i != faulty {
			others = append(others, i)
		}
	}
	if len(others) > 1 && rapid.Bool().Draw(t, "oneSibling") {
		others = []int{others[rapid.IntRange(0, len(others)-1).Draw(t, "sibling")]}
	}
	for _, i := range others {
		c.Pools[i].Profile, c.Pools[i].Prov.Total = "long", -1
	}
}

var poolNames = []string{"", "", "main", "HTTP pool", "grpc-pool", "pool_0", "pool_1", "pool_2", "пул/1"}

// genIDs: pool ids as a config author writes them: none (default names), free-form names, and - with several pools -
// a name copied from another pool: the same free-form name twice, or an explicit id that equals the default name of
// an unnamed pool.
func genIDs(t *rapid.T, c *Case) {
	n := len(c.Pools)
	style := rapid.SampledFrom([]string{"legacy", "default", "named", "named"}).Draw(t, "idStyle")
	if style == "legacy" {
		return
	}
	for i := range c.Pools {
		c.Pools[i].IDMode = "default"
		if style == "named" {
			if name := rapid.SampledFrom(poolNames).Draw(t, "poolName"); name != "" {
				c.Pools[i].IDMode, c.Pools[i].ID = "name", name
			}
		}
	}
	if n > 1 && rapid.IntRange(0, 2).Draw(t, "copyID") != 0 {
		from := rapid.IntRange(0, n-1).Draw(t, "copyFrom")
		to := rapid.IntRange(0, n-2).Draw(t, "copyTo")
		if to >= from {
			to++
		}
		c.Pools[to].IDMode, c.Pools[to].ID = "name", c.Pools[from].effectiveID(from)
	}
}

// genSlowSteps: a step of one pool that does not look at any context (gun factory call, WarmUp, schedule factory
// call) takes a while without failing. Short delays widen the window in which a fault or cancel of the generated plan
// meets a pool that is still inside such a step; the long ones (longer than the promptness bound) always come with a
// cancel that arrives early inside them and are run once.
func genSlowSteps(t *rapid.T, c *Case) {
	kind := ""
	switch k := rapid.IntRange(0, 29).Draw(t, "slowStep"); {
	case k == 12 || k == 13: // (rapid prefers the ends of a range)
		kind = "long"
	case k >= 14 && k <= 19:
		kind = "short"
	default:
		return
	}
	p := &c.Pools[rapid.IntRange(0, len(c.Pools)-1).Draw(t, "slowPool")]
	var us int
	if kind == "short" {
		us = rapid.SampledFrom([]int{200, 2000, 20000, 100000}).Draw(t, "slowUs")
	} else {
		us = rapid.SampledFrom([]int{1500000, 2000000}).Draw(t, "slowLongUs")
	}
	switch rapid.SampledFrom([]string{"factory0", "factory0", "factory", "warmup", "warmup", "sched", "sched"}).Draw(t, "slowWhere") {
	case "factory0":
		p.Gun.FactoryDelayUs, p.Gun.FactoryDelayAt = us, 0
	case "factory":
		p.Gun.FactoryDelayUs, p.Gun.FactoryDelayAt = us, rapid.IntRange(1, p.Instances).Draw(t, "slowFactoryAt")
	case "warmup":
		p.Gun.WarmUp, p.Gun.WarmUpDelayUs = true, us
	case "sched":
		p.SchedDelayUs, p.SchedDelayAt = us, 0
		if p.PerInstance {
			p.SchedDelayAt = rapid.IntRange(0, p.Instances-1).Draw(t, "slowSchedAt")
		}
	}
	if kind == "long" {
		c.Repeat = 1
		if rapid.IntRange(0, 5).Draw(t, "slowNoCancel") != 0 {
			c.Cancel = "during"
			c.CancelAfterUs = rapid.SampledFrom([]int{0, 50, 300, 1000, 3000, 10000, 100000}).Draw(t, "cancelAfterUs3")
		}
	}
}

type poolRun struct {
	pc       PoolCase
	prov     *fake.Provider
	real     *realProvider // set instead of prov when pc.Real != nil
	guns     *fake.GunWorld
	aggr     *fake.Aggregator
	schedN   int32
	schedHit atomic.Bool
	spanMu   sync.Mutex
	spans    []fake.StepSpan
	// rec: the instant every call of the engine into a component of this pool started (callrec_test.go)
	rec *callRec
}

// stepSpans: all plain delays the pool's doubles spent in context-blind steps.
func (pr *poolRun) stepSpans() []fake.StepSpan {
	pr.spanMu.Lock()
	defer pr.spanMu.Unlock()
	return append(pr.guns.StepSpans(), pr.spans...)
}

func buildPool(i int, pc PoolCase) (*poolRun, engine.InstancePoolConfig, error) {
	pr := &poolRun{pc: pc, rec: &callRec{}}
	pr.prov = fake.NewProvider(pc.Prov)
	var provider core.Provider = pr.prov
	if pc.Real != nil {
		rp, err := newRealProvider(*pc.Real)
		if err != nil {
			return nil, engine.InstancePoolConfig{}, fmt.Errorf("harness: the real http provider of pool%d could not be constructed: %v\n--- ammo ---\n%.300q", i, err, pc.Real.render())
		}
		pr.real, provider = rp, rp
	}
	pr.guns = fake.NewGunWorld(pc.Gun)
	pr.aggr = fake.NewAggregator(pc.Agg)
	var calls int
	newSched := func() (core.Schedule, error) {
		n := calls // NewRPSSchedule is called from one goroutine at a time? not guaranteed: keep it simple but safe
		calls++
		if pc.SchedDelayUs > 0 && (pc.SchedDelayAt < 0 || n == pc.SchedDelayAt) {
			sp := fake.StepSpan{Kind: "sched", Call: n, Start: time.Now()}
			time.Sleep(time.Duration(pc.SchedDelayUs) * time.Microsecond)
			sp.End = time.Now()
			pr.spanMu.Lock()
			pr.spans = append(pr.spans, sp)
			pr.spanMu.Unlock()
		}
		if pc.SchedErrAt >= 0 && n == pc.SchedErrAt {
			if pc.SchedFaultUs > 0 {
				time.Sleep(time.Duration(pc.SchedFaultUs) * time.Microsecond)
			}
			pr.schedHit.Store(true)
			return nil, &fake.InjectedError{Where: "sched"}
		}
		switch pc.Profile {
		case "const":
			d := 5 * time.Millisecond
			return schedule.NewConst((float64(pc.Tokens)+0.25)/d.Seconds(), d), nil
		case "long":
			if pc.PerInstance && pc.Instances > 4 {
				// a crowded pool: 2000 shots a second in total
				return schedule.NewConst(2000/float64(pc.Instances), 60*time.Second), nil
			}
			return schedule.NewConst(2000, 60*time.Second), nil
		}
		return schedule.NewOnce(int64(pc.Tokens)), nil
	}
	var mu = make(chan struct{}, 1)
	locked := func() (core.Schedule, error) {
		pr.rec.begin("schedule factory")
		mu <- struct{}{}
		defer func() { <-mu }()
		return newSched()
	}
	return pr, engine.InstancePoolConfig{
		ID: pc.configID(i), Provider: recProvider{provider, pr.rec}, Aggregator: recAggregator{pr.aggr, pr.rec},
		NewGun:         recFactory(pr.rec, pr.guns.Factory),
		RPSPerInstance: pc.PerInstance, NewRPSSchedule: locked,
		StartupSchedule: schedule.NewOnce(int64(pc.Instances)), DiscardOverflow: pc.DiscardOnPool,
	}, nil
}

func (pr *poolRun) reached() []string {
	var out []string
	if pr.provFaultReached() {
		out = append(out, "provider")
	}
	if pr.aggr.FaultReached.Load() {
		out = append(out, "aggregator")
	}
	for _, k := range []string{"factory", "bind", "warmup", "shot_panic"} {
		if pr.guns.Reached(k) {
			out = append(out, k)
		}
	}
	if pr.schedHit.Load() {
		out = append(out, "sched")
	}
	return out
}

func engineGoroutines() string {
	buf := make([]byte, 4<<20)
	n := runtime.Stack(buf, true)
	var bad []string
	for _, g := range strings.Split(string(buf[:n]), "\n\n") {
		if strings.Contains(g, "pandora/core/engine.") {
			bad = append(bad, g)
		}
	}
	return strings.Join(bad, "\n\n")
}

func check(c Case, o *vf.Obs) error {
	rep := c.Repeat
	if rep < 1 {
		rep = 1
	}
	seen := map[string]bool{}
	for i := 0; i < rep; i++ {
		var err error
		// The promptness bound is the one wall-clock oracle of this check: a run that misses it is believed only when
		// this process's own 2 ms sleeps were woken on time while it ran (vf.LoadProbe); a disturbed miss is repeated,
		// and a case whose every miss was disturbed is counted inconclusive, never as a pass of the bound.
		for attempt := 0; attempt < 3; attempt++ {
			probe := vf.StartLoadProbe()
			err = once(c, o, i == 0 && attempt == 0, seen)
			late := probe.Stop()
			var lp *latePrompt
			if err == nil || !errors.As(err, &lp) || late <= 25*time.Millisecond {
				break
			}
			if attempt == 2 {
				o.Class("inconclusive_machine_load")
				o.Note("inconclusive", err.Error())
				err = nil
				break
			}
			time.Sleep(time.Duration(100*(attempt+1)) * time.Millisecond)
		}
		if err != nil {
			return fmt.Errorf("run %d: %w", i, err)
		}
	}
	return nil
}

// latePrompt is the failure of the promptness bound (see check).
type latePrompt struct{ msg string }

func (e *latePrompt) Error() string { return e.msg }

const runDeadline = 20 * time.Second

// promptBound: how long Engine.Run may take to return the cancellation error after the caller's cancel. The engine
// answers a cancel by itself (normally within a fraction of a millisecond), whatever its pools' components are doing;
// the cli gives a SIGTERM'ed run 3 s before it gives up on a graceful stop.
const promptBound = time.Second

// once runs the case one time. classify: label the case with the classes this run showed; the classes that depend on
// how the Go scheduler interleaved the start of the pools with the end of the run are looked for in every run of the
// case and counted once (seen).
func once(c Case, o *vf.Obs, classify bool, seen map[string]bool) error {
	var prs []*poolRun
	conf := engine.Config{}
	defer func() {
		for _, pr := range prs {
			if pr.real != nil {
				pr.real.cleanup()
			}
		}
	}()
	for i, pc := range c.Pools {
		pr, pconf, err := buildPool(i, pc)
		if err != nil {
			return err
		}
		prs = append(prs, pr)
		conf.Pools = append(conf.Pools, pconf)
	}
	m := pand.Metrics()
	log, logged := engineLog(c.Log, c.LogWriteUs)
	eng := engine.New(log, m, conf)
	ctx, cancel := context.WithCancel(context.Background())
	defer cancel()
	var cancelAt time.Time
	cancelled := make(chan struct{})
	if c.Cancel == "before" {
		cancelAt = time.Now()
		cancel()
		close(cancelled)
	}
	var runErr error
	var runReturned time.Time
	var openAtRunNil []string
	done := make(chan struct{})
	// Engine.Wait is called the way the cli and a library user call it: straight after Run returned, from the same
	// goroutine, with nothing in between that would give the engine time to get on with what it has begun.
	var waitCalled, waitReturned time.Time
	var openAtWait []string
	waited := make(chan struct{})
	crashed := make(chan error, 1) // a panic that came out of Engine.Run / Engine.Wait themselves
	go func() {
		defer func() {
			if p := recover(); p != nil {
				crashed <- fmt.Errorf("panic: %v\n%s", p, debug.Stack())
			}
		}()
		runErr = eng.Run(ctx)
		if runErr == nil {
			// "successful run awaits all started tasks": judged at this instant, not later
			openAtRunNil = openGuns(prs)
		}
		runReturned = time.Now()
		close(done)
		waitCalled = time.Now()
		eng.Wait()
		waitReturned = time.Now()
		openAtWait = openGuns(prs)
		close(waited)
	}()
	if c.Cancel == "during" {
		go func() {
			select {
			case <-time.After(time.Duration(c.CancelAfterUs) * time.Microsecond):
			case <-done:
			}
			cancelAt = time.Now()
			cancel()
			close(cancelled)
		}()
	}
	select {
	case <-done:
	case err := <-crashed:
		return fmt.Errorf("Engine.Run did not return: %w", err)
	case <-time.After(runDeadline):
		buf := make([]byte, 1<<20)
		n := runtime.Stack(buf, true)
		return fmt.Errorf("Engine.Run did not return within %v\n%s", runDeadline, buf[:n])
	}
	if c.Cancel != "" {
		<-cancelled
	}
	cancelInProgress := c.Cancel != "" && cancelAt.Before(runReturned)
	var reached []string
	var realErrs []string // texts of the errors of the real providers that had failed by now
	for i, pr := range prs {
		for _, k := range pr.reached() {
			reached = append(reached, fmt.Sprintf("pool%d:%s", i, k))
			if k == "provider" && pr.real != nil {
				realErrs = append(realErrs, pr.real.errText())
			}
		}
	}
	// ---- outcome ----
	isCtxErr := runErr != nil && (errors.Is(runErr, context.Canceled) || strings.Contains(runErr.Error(), context.Canceled.Error()))
	carriesFault := runErr != nil && (fake.IsInjected(runErr, "") || strings.Contains(runErr.Error(), "injected fault") ||
		(strings.Contains(runErr.Error(), "shoot panic") &&
			(strings.Contains(runErr.Error(), fmt.Sprint(fake.PanicMarkerInt)) || strings.Contains(runErr.Error(), "nil map"))))
	// the failure of a real provider is carried when the run's error shows the text of the error its Run returned
	for _, text := range realErrs {
		if text != "" && runErr != nil && strings.Contains(runErr.Error(), text) {
			carriesFault = true
		}
	}
	switch {
	case runErr == nil:
		if len(reached) > 0 {
			return fmt.Errorf("Engine.Run returned nil although component faults were reached: %v (a component error was swallowed)", reached)
		}
		// nil is only legitimate if every pool ran out of ammo or schedule (after an in-progress cancel: if all the
		// work had been done anyway)
		for i, pr := range prs {
			if !workComplete(pr, m) {
				if cancelInProgress {
					return fmt.Errorf("Engine.Run returned nil although the run was cancelled while pool%d still had work to do", i)
				}
				return fmt.Errorf("Engine.Run returned nil although pool %d (id %q) had neither used up its ammo nor its schedule: %d shots and discards, %d ammo delivered (ids of the pools: %q)",
					i, pr.pc.effectiveID(i), pr.doneShots(), pr.provDelivered(), effectiveIDs(c))
			}
		}
	case carriesFault:
		if len(reached) == 0 {
			return fmt.Errorf("Engine.Run returned %q but no injected fault was reached", runErr)
		}
	case isCtxErr:
		if c.Cancel == "" {
			return fmt.Errorf("Engine.Run returned a cancellation error (%v) although nobody cancelled the run (reached faults: %v)", runErr, reached)
		}
	default:
		return fmt.Errorf("Engine.Run returned an error that carries neither a reached fault nor the cancellation: %q (reached: %v, cancel: %q)", runErr, reached, c.Cancel)
	}
	if cancelInProgress && runErr != nil {
		if lag := runReturned.Sub(cancelAt); lag > promptBound {
			return &latePrompt{fmt.Sprintf("Engine.Run returned %v after the cancellation, expected promptly (within %v; context-blind steps in progress: %v)",
				lag, promptBound, describeSpans(prs, cancelAt))}
		}
	}
	// ---- everything stops ----
	// The caller's context is left alone here (it is cancelled only where the case says so, and when once returns):
	// after a failure of one pool it is the engine that has to stop everything else it started.
	callerCancelled := ctx.Err() != nil
	if len(openAtRunNil) > 0 {
		return fmt.Errorf("at the instant Engine.Run returned nil: %s", strings.Join(openAtRunNil, "; "))
	}
	var stacks string
	select {
	case <-waited:
	case err := <-crashed:
		return fmt.Errorf("Engine.Wait, called straight after Engine.Run had returned %v, did not return (caller's cancel: %q; reached faults: %v; %d pools): %w",
			runErr, c.Cancel, reached, len(c.Pools), err)
	case <-time.After(runDeadline):
		buf := make([]byte, 1<<20)
		stacks = string(buf[:runtime.Stack(buf, true)])
	}
	if stacks != "" {
		return fmt.Errorf("Engine.Wait did not return within %v after Run returned %v (reached faults: %v; caller's context cancelled: %v; pools that cannot end by themselves: %v; instances started: %d, finished: %d; %s)\n%s",
			runDeadline, runErr, reached, callerCancelled, endlessPools(c), m.InstanceStart.Get(), m.InstanceFinish.Get(), describePools(prs), stacks)
	}
	if len(openAtWait) > 0 {
		return fmt.Errorf("at the instant Engine.Wait returned (Run returned %v): %s", runErr, strings.Join(openAtWait, "; "))
	}
	deadline := time.Now().Add(runDeadline)
	for i, pr := range prs {
		for pr.provStarted() && !pr.provReturned() {
			if time.Now().After(deadline) {
				return fmt.Errorf("pool%d: provider.Run has not returned %v after the run ended", i, runDeadline)
			}
			time.Sleep(200 * time.Microsecond)
		}
		for pr.aggr.RunStarted.Load() && !pr.aggr.RunReturned.Load() {
			if time.Now().After(deadline) {
				return fmt.Errorf("pool%d: aggregator.Run has not returned %v after the run ended", i, runDeadline)
			}
			time.Sleep(200 * time.Microsecond)
		}
	}
	var leak string
	for {
		leak = engineGoroutines()
		if leak == "" || time.Now().After(deadline) {
			break
		}
		time.Sleep(500 * time.Microsecond)
	}
	if leak != "" {
		return fmt.Errorf("goroutines of the engine are still alive %v after Run and Wait returned:\n%s", runDeadline, leak)
	}
	// ---- the background work is over when Wait returns ----
	// Nothing of the engine runs any more (no goroutine of it is left), so every call it was ever going to make has
	// been made and recorded: none of them may have started after the instant Engine.Wait returned.
	if late := startedAfter(prs, waitReturned); len(late) > 0 {
		return fmt.Errorf("the engine went on calling components after Engine.Wait had returned (Run returned %v; Wait was called %v after Run returned and took %v; caller's cancel: %q; reached faults: %v; %d pools): %s",
			runErr, waitCalled.Sub(runReturned), waitReturned.Sub(waitCalled), c.Cancel, reached, len(c.Pools), strings.Join(late, "; "))
	}
	if s, f := m.InstanceStart.Get(), m.InstanceFinish.Get(); s != f {
		return fmt.Errorf("InstanceStart=%d, InstanceFinish=%d after everything stopped", s, f)
	}
	for i, pr := range prs {
		if !pr.pc.Gun.Closer {
			continue
		}
		for _, g := range pr.guns.Guns {
			if g.BindOK && g.Closed.Load() != 1 {
				return fmt.Errorf("pool%d: closable gun %d (instance %d, bound) was closed %d times", i, g.Idx, g.Deps.InstanceID, g.Closed.Load())
			}
			if !g.BindOK && g.Closed.Load() > 1 {
				return fmt.Errorf("pool%d: gun %d closed %d times", i, g.Idx, g.Closed.Load())
			}
		}
		if pr.guns.Overlaps != 0 {
			return fmt.Errorf("pool%d: overlapping shots on one gun", i)
		}
	}
	// the run was over - and Engine.Wait already called - before pool i made its first step (the creation of its
	// warm-up gun): what Wait is there for
	class := func(name string) {
		if !seen[name] {
			seen[name] = true
			o.Class(name)
		}
	}
	lateFirst, lateOther := false, false // ... pool 0 / a later pool
	for i, pr := range prs {
		if first, ok := pr.rec.first(); ok && first.After(waitCalled) {
			lateFirst = lateFirst || i == 0
			lateOther = lateOther || i > 0
		}
	}
	if lateFirst || lateOther {
		class("pool_began_after_wait_was_called")
		if lateFirst {
			class("pool_began_after_wait_was_called_pool_0")
		}
		if len(c.Pools) > 3 {
			class("pool_began_after_wait_was_called_gt_3_pools")
		}
		switch {
		case isCtxErr && c.Cancel == "before":
			class("pool_began_after_wait_was_called_context_cancelled_before_run")
		case isCtxErr:
			class("pool_began_after_wait_was_called_cancel_during_run")
		case carriesFault:
			class("pool_began_after_wait_was_called_other_pool_failed")
			for _, pr := range prs {
				if len(pr.reached()) > 0 && pr.pc.firstStepFault() != "" {
					class("pool_began_after_wait_was_called_other_pool_failed_at_once")
				}
			}
		}
	}
	if classify {
		o.ClassIf(len(c.Pools) > 3, "pools_gt_3")
		for _, r := range reached {
			o.Class("fault_" + r[strings.Index(r, ":")+1:])
		}
		// one pool failed by itself, the caller never cancelled, another pool had a minute of work left
		if carriesFault && !callerCancelled && len(c.Pools) > 1 {
			for i, pr := range prs {
				if len(pr.reached()) > 0 {
					continue
				}
				if pr.pc.endless() {
					o.Class("pool_failed_no_caller_cancel_sibling_endless")
					o.ClassIf(pr.guns.ShotCount() > 0, "pool_failed_no_caller_cancel_sibling_was_shooting")
					o.ClassIf(i == 0, "pool_failed_no_caller_cancel_sibling_is_first_pool")
					break
				}
			}
		}
		slowClosed, slowClosedFirst, slowClosedLater := false, false, false
		for _, pr := range prs {
			for _, g := range pr.guns.GunsSnapshot() {
				if g.BindOK && g.Closed.Load() == 1 && g.CloseDelay() > 0 {
					slowClosed = true
					slowClosedFirst = slowClosedFirst || g.Deps.InstanceID == 0
					slowClosedLater = slowClosedLater || g.Deps.InstanceID > 0
				}
			}
		}
		o.ClassIf(slowClosed, "slow_gun_close")
		o.ClassIf(slowClosedFirst, "slow_gun_close_instance_0")
		o.ClassIf(slowClosedLater, "slow_gun_close_instance_gt_0")
		o.ClassIf(slowClosed && runErr == nil, "slow_gun_close_result_nil")
		o.ClassIf(slowClosed && isCtxErr, "slow_gun_close_result_ctx_err")
		o.ClassIf(slowClosed && carriesFault, "slow_gun_close_result_fault")
		for _, pr := range prs {
			if pr.real == nil && pr.prov.FaultReached.Load() {
				o.Class("provider_fault_" + pr.pc.Prov.Fault)
				o.Class("err_shape_" + pr.pc.Prov.ErrShape)
				o.ClassIf(pr.pc.Prov.ErrShape == "own_deadline" && pr.pc.Prov.Fault == "at_end", "own_deadline_error_at_end")
			}
			if pr.aggr.FaultReached.Load() {
				o.Class("aggregator_fault_" + pr.pc.Agg.Fault)
				o.Class("err_shape_" + pr.pc.Agg.ErrShape)
				o.ClassIf(pr.pc.Agg.ErrShape == "own_deadline" && pr.pc.Agg.Fault == "at_end", "own_deadline_error_at_end")
			}
			if pr.guns.Reached("shot_panic") {
				o.Class("panic_kind_" + pr.pc.Gun.PanicKind)
			}
		}
		for _, pr := range prs {
			if rp := pr.real; rp != nil {
				o.Class("real_provider", "real_provider_"+rp.plan.Format)
				o.ClassIf(rp.plan.Preload, "real_provider_preload")
				o.ClassIf(rp.plan.InitUs > 0, "real_provider_slow_middleware_init")
				// the shape of finding engine-own-cancel-wrapped-by-provider-fails-run (repaired): the pool is done before
				// the provider has got anywhere, and cancels it
				o.ClassIf(pr.pc.zeroShots(), "real_provider_pool_without_a_shot")
				if rp.FaultReached.Load() {
					before, parked := rp.deliveredAtFailure.Load() == 0, rp.parkedAtFailure.Load() > 0
					o.Class("real_provider_failed")
					o.ClassIf(rp.plan.Bad != "", "real_provider_failed_malformed_entry")
					o.ClassIf(rp.plan.Bad == "", "real_provider_failed_file_without_entries")
					o.ClassIf(!before, "real_provider_failed_mid_run")
					o.ClassIf(before, "real_provider_failed_before_first_ammo")
					o.ClassIf(before && parked, "real_provider_failed_before_first_ammo_instances_in_acquire")
					o.ClassIf(before && rp.plan.Preload, "real_provider_failed_in_preload")
					o.ClassIf(before && rp.plan.Preload && parked, "real_provider_failed_in_preload_instances_in_acquire")
					o.ClassIf(before && rp.plan.Preload && parked && rp.plan.Bad != "", "real_provider_failed_in_preload_malformed_instances_in_acquire")
					o.ClassIf(before && rp.plan.Preload && parked && rp.plan.Bad == "", "real_provider_failed_in_preload_no_entries_instances_in_acquire")
				} else {
					o.ClassIf(runErr == nil, "real_provider_healthy_result_nil")
				}
			}
			if pr.pc.Instances >= crowdSizes[0] {
				started := 0
				for _, g := range pr.guns.GunsSnapshot() {
					if g.BindOK {
						started++
					}
				}
				o.Class("crowd")
				if started > 64 {
					o.Class("crowd_gt_64_instances_started")
					o.ClassIf(started > 250, "crowd_gt_250_instances_started")
					o.ClassIf(isCtxErr, "crowd_ended_by_cancel")
					o.ClassIf(carriesFault, "crowd_ended_by_failure")
					o.ClassIf(carriesFault && len(pr.reached()) > 0, "crowd_ended_by_own_failure")
					o.ClassIf(pr.pc.Gun.ShotCtx, "crowd_requests_end_with_context")
					o.ClassIf(!pr.pc.Gun.ShotCtx, "crowd_in_schedule_wait")
					o.ClassIf(c.Log == "debug", "crowd_debug_log")
					o.ClassIf(c.Log == "", "crowd_nop_log")
				}
			}
		}
		o.ClassIf(c.Log != "", "log_"+c.Log)
		o.ClassIf(c.Log != "" && c.LogWriteUs > 0, "log_slow_output")
		if c.Log != "" {
			o.Note("log_entries", logged.Load())
		}
		o.ClassIf(cancelInProgress, "cancel_in_progress")
		if c.Cancel == "during" && cancelInProgress {
			for _, pr := range prs {
				for _, sp := range pr.stepSpans() {
					if !cancelAt.Before(sp.Start) && cancelAt.Before(sp.End) {
						o.Class("cancel_inside_blind_step", "cancel_inside_blind_"+sp.Kind)
						if sp.End.Sub(cancelAt) > promptBound {
							o.Class("cancel_inside_long_blind_step", "cancel_inside_long_blind_"+sp.Kind)
							// the steps a pool goes through before it starts its provider, aggregator and instances
							startup := sp.Call == 0 && (sp.Kind != "sched" || !pr.pc.PerInstance)
							o.ClassIf(startup && allOthersDone(prs, pr, cancelAt), "cancel_inside_long_blind_startup_step_other_pools_done")
						}
					}
				}
			}
		}
		for _, pc := range c.Pools {
			if us := pc.Gun.FactoryDelayUs + pc.Gun.WarmUpDelayUs + pc.SchedDelayUs; us > 0 {
				o.ClassIf(us < 1000000, "blind_step_delay_short")
				o.ClassIf(us >= 1000000, "blind_step_delay_long")
			}
		}
		ids := map[string]int{}
		for i, pc := range c.Pools {
			ids[pc.effectiveID(i)]++
		}
		equalIDs, equalsDefault := false, false
		for i, pc := range c.Pools {
			if ids[pc.effectiveID(i)] > 1 {
				equalIDs = true
				equalsDefault = equalsDefault || pc.configID(i) == ""
			}
		}
		o.ClassIf(equalIDs, "pool_ids_equal")
		o.ClassIf(equalsDefault, "pool_id_equals_default_name_of_other")
		o.ClassIf(equalIDs && len(reached) > 0, "pool_ids_equal_and_fault_reached")
		o.ClassIf(len(c.Pools) > 0 && c.Pools[0].IDMode == "default", "pool_ids_default")
		o.ClassIf(c.Cancel == "before", "cancel_before_run")
		o.ClassIf(len(c.Pools) > 1, "pools_gt_1")
		o.ClassIf(runErr == nil, "result_nil")
		o.ClassIf(isCtxErr, "result_ctx_err")
		o.ClassIf(carriesFault, "result_fault")
		if len(reached) > 0 || cancelInProgress {
			o.NonTrivial()
		}
		o.Note("reached", reached)
		o.Note("result", fmt.Sprint(runErr))
	}
	return nil
}

// openGuns lists the bound closable guns whose Close has not returned (or was called more than once) at the instant
// of the call.
func openGuns(prs []*poolRun) []string {
	var out []string
	for i, pr := range prs {
		if !pr.pc.Gun.Closer {
			continue
		}
		for _, g := range pr.guns.GunsSnapshot() {
			if g.BindOK && g.Closed.Load() != 1 {
				out = append(out, fmt.Sprintf("pool%d: closable gun %d (instance %d, bound) has %d finished Close calls (%d entered; its Close takes %d us)",
					i, g.Idx, g.Deps.InstanceID, g.Closed.Load(), g.CloseEntered.Load(), g.CloseDelay()))
			}
		}
	}
	return out
}

// describePools: one line per pool for a hang message.
func describePools(prs []*poolRun) string {
	var out []string
	for i, pr := range prs {
		d := fmt.Sprintf("pool%d: %d instances, profile %s", i, pr.pc.Instances, pr.pc.Profile)
		if rp := pr.real; rp != nil {
			d += fmt.Sprintf(", real %s provider (preload %v, %d good entries, bad entry %q, passes %d): Run returned: %v, error %q, %d ammo handed out, %d Acquire calls in progress",
				rp.plan.Format, rp.plan.Preload, rp.plan.Good, rp.plan.Bad, rp.plan.Passes, rp.RunReturned.Load(), rp.errText(), rp.delivered.Load(), rp.entered.Load()-rp.left.Load())
		}
		out = append(out, d)
	}
	return strings.Join(out, "; ")
}

func endlessPools(c Case) []int {
	out := []int{}
	for i, pc := range c.Pools {
		if pc.endless() {
			out = append(out, i)
		}
	}
	return out
}

// workComplete: the pool had nothing left to do (all tokens consumed or all ammo used).
func workComplete(pr *poolRun, m engine.Metrics) bool {
	pc := pr.pc
	if pc.Profile == "long" && pc.Prov.Total < 0 {
		return false
	}
	doneShots := pr.doneShots()
	if pc.Prov.Total >= 0 && pr.provDelivered() >= pc.Prov.Total {
		return true // ammo used up
	}
	if pc.Profile == "long" {
		return false
	}
	tokens := pc.Tokens
	if pc.PerInstance {
		tokens = pc.Tokens * pc.Instances
	}
	return doneShots >= tokens
}

func (pr *poolRun) doneShots() int {
	_, disc := pr.aggr.Counts()
	return pr.guns.ShotCount() + disc
}

func effectiveIDs(c Case) []string {
	var out []string
	for i, pc := range c.Pools {
		out = append(out, pc.effectiveID(i))
	}
	return out
}

// describeSpans lists the context-blind delays that were in progress at instant at.
func describeSpans(prs []*poolRun, at time.Time) []string {
	var out []string
	for i, pr := range prs {
		for _, sp := range pr.stepSpans() {
			if !at.Before(sp.Start) && at.Before(sp.End) {
				out = append(out, fmt.Sprintf("pool%d %s call %d, ends %v after the cancel", i, sp.Kind, sp.Call, sp.End.Sub(at)))
			}
		}
	}
	return out
}

// allOthersDone: every pool but pr had nothing running any more at instant at (classification only).
func allOthersDone(prs []*poolRun, pr *poolRun, at time.Time) bool {
	for _, q := range prs {
		if q == pr {
			continue
		}
		if !q.provReturned() || q.provReturnAt() > at.UnixNano() {
			return false
		}
	}
	return true
}

func TestOutcome(t *testing.T) {
	r := vf.Start(t, "C05")
	crowdOneIn = r.Pick(20, 50)
	vf.Check(r, genCase, check)
}
