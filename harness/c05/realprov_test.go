// C05 — pools whose ammo provider is pandora's REAL http provider (uri / raw / jsonline files on the shared
// in-memory fs) instead of a recording double, and an engine logger that is not the nop one.
//
// The doubles of internal/fake end a failing Run by closing their own queue; the real provider has its own way of
// telling the instances that no ammo will come (it closes its sink when Run returns) and its own failure points:
// a malformed entry or a file without entries is met while the file is being read - with `preload: true` that is
// BEFORE the first ammo is handed out, however many good entries precede the bad one, and the instances, which start
// at the same time, are by then parked in Acquire.
package c05

import (
	"context"
	"errors"
	"fmt"
	"net/http"
	"strings"
	"sync/atomic"
	"time"

	"verif/harness/internal/pand"

	httpprovider "github.com/yandex/pandora/components/providers/http"
	"github.com/yandex/pandora/components/providers/http/config"
	"github.com/yandex/pandora/components/providers/http/middleware"
	"github.com/yandex/pandora/core"
	"go.uber.org/zap"
	"go.uber.org/zap/zapcore"
)

// RealProvPlan: the ammo file of a pool that reads it with the real http provider.
type RealProvPlan struct {
	Format string `json:"format"` // uri | raw | jsonline
	Inline bool   `json:"inline,omitempty"` // uri only: the lines are given as `uris` in the config, not as a file
	// Good well-formed entries, then - if Bad is set - one entry of that kind and GoodAfter more good ones.
	// Good == 0 without Bad is a file WITHOUT entries, of shape Empty.
	Good      int    `json:"good"`
	Bad       string `json:"bad,omitempty"`   // uri: unclosed_header | bad_url; raw: bad_size | truncated; jsonline: broken_json | wrong_type
	GoodAfter int    `json:"good_after,omitempty"`
	Empty     string `json:"empty,omitempty"` // empty | blank_lines | headers_only (uri) | empty_array (jsonline)
	Preload   bool   `json:"preload"`
	Passes    int    `json:"passes"` // 0 = unlimited
	// InitUs: the provider has a request middleware whose initialisation takes this long (it fetches a token, say);
	// it honours its context. 0 = no middleware.
	InitUs int `json:"middleware_init_us,omitempty"`
}

// total: the number of ammo the file can deliver before the provider ends by itself without an error; -1 = it never
// does (unlimited passes, or there is something in the file it cannot get past).
func (p RealProvPlan) total() int {
	if p.Bad != "" || p.Good == 0 || p.Passes == 0 {
		return -1
	}
	return p.Good * p.Passes
}

// failsByItself: reading the file to its end is an error.
func (p RealProvPlan) failsByItself() bool { return p.Bad != "" || p.Good == 0 }

func (p RealProvPlan) render() string {
	var sb strings.Builder
	good := func(tagPrefix string, i int) {
		switch p.Format {
		case "uri":
			fmt.Fprintf(&sb, "/%s/%d?from=verif&n=%d tag%d\n", tagPrefix, i, i, i%3)
		case "raw":
			req := fmt.Sprintf("GET /%s/%d HTTP/1.1\r\nHost: example.org\r\nUser-Agent: verif\r\n\r\n", tagPrefix, i)
			fmt.Fprintf(&sb, "%d tag%d\n%s\n", len(req), i%3, req)
		case "jsonline":
			fmt.Fprintf(&sb, `{"host": "example.org", "method": "GET", "uri": "/%s/%d", "tag": "tag%d", "headers": {"User-Agent": "verif"}}`+"\n", tagPrefix, i, i%3)
		}
	}
	if p.Good == 0 && p.Bad == "" {
		switch p.Empty {
		case "blank_lines":
			return "\n\n   \n"
		case "headers_only":
			return "[Host: example.org]\n[User-Agent: verif]\n"
		case "empty_array":
			return "[]\n"
		}
		return ""
	}
	if p.Format == "uri" {
		sb.WriteString("[Host: example.org]\n[User-Agent: verif]\n")
	}
	for i := 0; i < p.Good; i++ {
		good("good", i)
	}
	switch p.Bad {
	case "unclosed_header":
		sb.WriteString("[X-Request-Source: the closing bracket is missing\n")
	case "bad_url":
		sb.WriteString("/search/%zz?q=1 tag1\n")
	case "bad_size":
		sb.WriteString("sixty-two tag1\nGET /x HTTP/1.1\r\nHost: example.org\r\n\r\n\n")
	case "truncated":
		sb.WriteString("4000 tag1\nGET /x HTTP/1.1\r\nHost: example.org\r\n\r\n")
		return sb.String() // the announced size reaches beyond the end of the file
	case "broken_json":
		sb.WriteString(`{"host": "example.org", "method": "GET" "uri": "/x"}` + "\n")
	case "wrong_type":
		sb.WriteString(`{"host": "example.org", "method": "GET", "uri": 5}` + "\n")
	}
	for i := 0; i < p.GoodAfter; i++ {
		good("after", i)
	}
	return sb.String()
}

// slowInit is a request middleware whose initialisation takes a while.
type slowInit struct{ us int }

func (m slowInit) InitMiddleware(ctx context.Context, _ *zap.Logger) error {
	tm := time.NewTimer(time.Duration(m.us) * time.Microsecond)
	defer tm.Stop()
	select {
	case <-tm.C:
		return nil
	case <-ctx.Done():
		return ctx.Err()
	}
}
func (slowInit) UpdateRequest(*http.Request) error { return nil }

// realProvider runs a real http provider and records what the engine did with it.
type realProvider struct {
	inner core.Provider
	plan  RealProvPlan
	file  string

	RunStarted   atomic.Bool
	RunReturned  atomic.Bool
	RunReturnAt  atomic.Int64
	FaultReached atomic.Bool
	runErr       error // valid once RunReturned
	entered      atomic.Int64
	left         atomic.Int64
	delivered    atomic.Int64
	// parkedAtFailure: Acquire calls in progress at the instant Run returned its (non-cancellation) error;
	// deliveredAtFailure: ammo handed out before it.
	parkedAtFailure    atomic.Int64
	deliveredAtFailure atomic.Int64
}

func newRealProvider(plan RealProvPlan) (*realProvider, error) {
	conf := config.Config{Decoder: config.DecoderType(plan.Format), Preload: plan.Preload, Passes: uint(plan.Passes)}
	rp := &realProvider{plan: plan}
	content := plan.render()
	if plan.Inline {
		conf.Uris = strings.Split(strings.TrimSuffix(content, "\n"), "\n")
	} else {
		rp.file = pand.WriteFile("c05-ammo", "."+plan.Format, []byte(content))
		conf.File = rp.file
	}
	if plan.InitUs > 0 {
		conf.Middlewares = []middleware.Middleware{slowInit{us: plan.InitUs}}
	}
	p, err := httpprovider.NewProvider(pand.FS(), conf)
	if err != nil {
		rp.cleanup()
		return nil, err
	}
	rp.inner = p
	return rp, nil
}

func (rp *realProvider) cleanup() {
	if rp.file != "" {
		pand.Remove(rp.file)
	}
}

// isCancellation: the provider gave up because its context was cancelled (bare or wrapped).
func isCancellation(err error) bool {
	return errors.Is(err, context.Canceled) || strings.Contains(err.Error(), context.Canceled.Error())
}

func (rp *realProvider) Run(ctx context.Context, deps core.ProviderDeps) error {
	rp.RunStarted.Store(true)
	err := rp.inner.Run(ctx, deps)
	rp.runErr = err
	failed := err != nil && !isCancellation(err)
	if failed {
		rp.parkedAtFailure.Store(rp.entered.Load() - rp.left.Load())
		rp.deliveredAtFailure.Store(rp.delivered.Load())
	}
	rp.RunReturnAt.Store(time.Now().UnixNano())
	rp.RunReturned.Store(true)
	if failed {
		rp.FaultReached.Store(true) // last: whoever sees it also sees the error
	}
	return err
}

func (rp *realProvider) Acquire() (core.Ammo, bool) {
	rp.entered.Add(1)
	a, ok := rp.inner.Acquire()
	if ok {
		rp.delivered.Add(1)
	}
	rp.left.Add(1)
	return a, ok
}

func (rp *realProvider) Release(a core.Ammo) { rp.inner.Release(a) }

// errText: the text of the error the provider's Run returned ("" before it returned, or for nil).
func (rp *realProvider) errText() string {
	if !rp.RunReturned.Load() || rp.runErr == nil {
		return ""
	}
	return rp.runErr.Error()
}

// ---------------- provider of a pool, double or real ----------------

func (pr *poolRun) provStarted() bool {
	if pr.real != nil {
		return pr.real.RunStarted.Load()
	}
	return pr.prov.RunStarted.Load()
}

func (pr *poolRun) provReturned() bool {
	if pr.real != nil {
		return pr.real.RunReturned.Load()
	}
	return pr.prov.RunReturned.Load()
}

func (pr *poolRun) provReturnAt() int64 {
	if pr.real != nil {
		return pr.real.RunReturnAt.Load()
	}
	return pr.prov.RunReturnAt.Load()
}

func (pr *poolRun) provFaultReached() bool {
	if pr.real != nil {
		return pr.real.FaultReached.Load()
	}
	return pr.prov.FaultReached.Load()
}

// provDelivered: the number of ammo handed to instances.
func (pr *poolRun) provDelivered() int {
	if pr.real != nil {
		return int(pr.real.delivered.Load())
	}
	return len(pr.prov.Delivered())
}

// ---------------- logger ----------------

// slowLogCore is a log core of the given level whose output needs writeUs per entry (a terminal, a log file on a busy
// disk): the goroutine that logs pays for its own entry, writers do not queue behind each other (a queue of hundreds
// of writers would delay whatever the engine itself has to say when it returns, which is nothing the engine can help).
// Entries are counted, not kept.
type slowLogCore struct {
	level   zapcore.Level
	writeUs int
	entries *atomic.Int64
}

func (c slowLogCore) Enabled(l zapcore.Level) bool      { return l >= c.level }
func (c slowLogCore) With([]zapcore.Field) zapcore.Core { return c }
func (c slowLogCore) Check(e zapcore.Entry, ce *zapcore.CheckedEntry) *zapcore.CheckedEntry {
	if c.Enabled(e.Level) {
		return ce.AddCore(e, c)
	}
	return ce
}
func (c slowLogCore) Write(zapcore.Entry, []zapcore.Field) error {
	c.entries.Add(1)
	if c.writeUs > 0 {
		time.Sleep(time.Duration(c.writeUs) * time.Microsecond)
	}
	return nil
}
func (c slowLogCore) Sync() error { return nil }

// engineLog: the logger the case gives the engine: "" the nop logger, "debug" / "info" a logger of that level whose
// output costs writeUs per entry.
func engineLog(level string, writeUs int) (*zap.Logger, *atomic.Int64) {
	n := &atomic.Int64{}
	switch level {
	case "debug":
		return zap.New(slowLogCore{level: zapcore.DebugLevel, writeUs: writeUs, entries: n}), n
	case "info":
		return zap.New(slowLogCore{level: zapcore.InfoLevel, writeUs: writeUs, entries: n}), n
	}
	return pand.NopLog(), n
}
