// C05 — "waiting for the engine's background tasks returns" means the background work is OVER: once Engine.Wait has
// returned, the engine does not call into any component any more. A caller that uses the engine as a library releases
// what the components need after Wait (closes the ammo file and the result sink, tears the target down), and the cli
// exits after it.
//
// The doubles of internal/fake record what happened inside their calls; the wrappers here add the one thing the
// judgement needs: the instant every component call STARTED - gun factory, WarmUp, Bind, Provider.Run, Aggregator.Run,
// schedule factory (shots carry their entry time already). They delegate everything else untouched and keep the
// optional interfaces of a gun (warmup.WarmedUp, io.Closer) exactly as the wrapped gun has them.
package c05

import (
	"context"
	"fmt"
	"io"
	"sort"
	"strings"
	"sync"
	"time"

	"github.com/yandex/pandora/core"
	"github.com/yandex/pandora/core/warmup"
)

// compCall is the start of one call the engine made into a component of a pool.
type compCall struct {
	Kind  string // gun factory | WarmUp | Bind | Provider.Run | Aggregator.Run | schedule factory | Shoot
	Call  int    // running number among the calls of that kind in the pool
	Start time.Time
}

type callRec struct {
	mu    sync.Mutex
	n     map[string]int
	calls []compCall
}

func (r *callRec) begin(kind string) {
	now := time.Now()
	r.mu.Lock()
	if r.n == nil {
		r.n = map[string]int{}
	}
	r.calls = append(r.calls, compCall{Kind: kind, Call: r.n[kind], Start: now})
	r.n[kind]++
	r.mu.Unlock()
}

func (r *callRec) snapshot() []compCall {
	r.mu.Lock()
	defer r.mu.Unlock()
	return append([]compCall(nil), r.calls...)
}

// first: the start of the earliest call recorded so far (ok = false: none yet).
func (r *callRec) first() (time.Time, bool) {
	r.mu.Lock()
	defer r.mu.Unlock()
	if len(r.calls) == 0 {
		return time.Time{}, false
	}
	min := r.calls[0].Start
	for _, c := range r.calls[1:] {
		if c.Start.Before(min) {
			min = c.Start
		}
	}
	return min, true
}

type recProvider struct {
	core.Provider
	rec *callRec
}

func (p recProvider) Run(ctx context.Context, deps core.ProviderDeps) error {
	p.rec.begin("Provider.Run")
	return p.Provider.Run(ctx, deps)
}

type recAggregator struct {
	core.Aggregator
	rec *callRec
}

func (a recAggregator) Run(ctx context.Context, deps core.AggregatorDeps) error {
	a.rec.begin("Aggregator.Run")
	return a.Aggregator.Run(ctx, deps)
}

// recGun delegates to the gun the double's factory made. Shoot is passed through as is (fake.ShotRec has the entry time).
type recGun struct {
	core.Gun
	rec *callRec
}

func (g recGun) Bind(aggr core.Aggregator, deps core.GunDeps) error {
	g.rec.begin("Bind")
	return g.Gun.Bind(aggr, deps)
}

func (g recGun) warmUp(opts *warmup.Options) (interface{}, error) {
	g.rec.begin("WarmUp")
	return g.Gun.(warmup.WarmedUp).WarmUp(opts)
}

type recWarmGun struct{ recGun }

func (g recWarmGun) WarmUp(opts *warmup.Options) (interface{}, error) { return g.warmUp(opts) }

type recCloserGun struct{ recGun }

func (g recCloserGun) Close() error { return g.Gun.(io.Closer).Close() }

type recWarmCloserGun struct{ recGun }

func (g recWarmCloserGun) WarmUp(opts *warmup.Options) (interface{}, error) { return g.warmUp(opts) }
func (g recWarmCloserGun) Close() error                                     { return g.Gun.(io.Closer).Close() }

// recFactory wraps a pool's NewGun.
func recFactory(rec *callRec, newGun func() (core.Gun, error)) func() (core.Gun, error) {
	return func() (core.Gun, error) {
		rec.begin("gun factory")
		g, err := newGun()
		if err != nil || g == nil {
			return g, err
		}
		_, warm := g.(warmup.WarmedUp)
		_, closer := g.(io.Closer)
		base := recGun{Gun: g, rec: rec}
		switch {
		case warm && closer:
			return recWarmCloserGun{base}, nil
		case warm:
			return recWarmGun{base}, nil
		case closer:
			return recCloserGun{base}, nil
		}
		return base, nil
	}
}

// allCalls: every component call of the pool that has started so far, shots included. Meant for the time after
// everything stopped.
func (pr *poolRun) allCalls() []compCall {
	out := pr.rec.snapshot()
	for i, s := range pr.guns.ShotsSnapshot() {
		out = append(out, compCall{Kind: "Shoot", Call: i, Start: s.Enter})
	}
	return out
}

// startedAfter lists the component calls of all pools that started after instant at, in the order of their start.
func startedAfter(prs []*poolRun, at time.Time) []string {
	type late struct {
		pool int
		c    compCall
	}
	var ls []late
	for i, pr := range prs {
		for _, c := range pr.allCalls() {
			if c.Start.After(at) {
				ls = append(ls, late{i, c})
			}
		}
	}
	sort.Slice(ls, func(a, b int) bool { return ls[a].c.Start.Before(ls[b].c.Start) })
	var out []string
	for k, l := range ls {
		if k == 12 {
			out = append(out, fmt.Sprintf("... and %d more", len(ls)-k))
			break
		}
		out = append(out, fmt.Sprintf("pool%d %s (call %d) started %v later", l.pool, l.c.Kind, l.c.Call, l.c.Start.Sub(at)))
	}
	return out
}

// firstStepFault: the pool's fault plan fails at a step the pool goes through at once, before or while it starts
// its provider, aggregator and instances.
func (p PoolCase) firstStepFault() string {
	var ks []string
	if p.Gun.FactoryErrAt == 0 {
		ks = append(ks, "factory")
	}
	if p.Gun.WarmUpErr {
		ks = append(ks, "warmup")
	}
	if p.SchedErrAt == 0 {
		ks = append(ks, "sched")
	}
	if p.Gun.BindErrAt == 0 {
		ks = append(ks, "bind")
	}
	if p.Real == nil && p.Prov.Fault == "before_first" {
		ks = append(ks, "provider")
	}
	if p.Agg.Fault == "start" {
		ks = append(ks, "aggregator")
	}
	return strings.Join(ks, "+")
}
