package c20

// gRPC scenarios that take LONGER than the gun's timeout while every single call stays well within it.
//
// docs/eng/grpc-generator.md: "timeout: 15s  # Grpc request timeout" - a bound for one request, not a budget for the
// scenario; scenario-http-generator.md#scenarios (referred to by the gRPC page): "sleep(100)" steps and
// "order_req(3, 100)" (multiplicity, sleep after each). A scenario with sleeps of 1.2-2.2 x timeout between its
// calls, or with 3-5 calls that take 0.3-0.4 x timeout each at the server, is past `timeout` long before its last
// call: every call must still reach the server ("within the configured timeout" = with the deadline the configuration
// gives a request, counted from the call's own start), be answered and leave a 200 sample.
//
// Such cases cost wall time, not CPU: the cases of a process run concurrently (vf.Batch), each against a recording
// target of its own.

import (
	"context"
	"fmt"
	"strconv"
	"strings"
	"sync"
	"testing"
	"time"

	"verif/harness/internal/pand"
	"verif/harness/internal/target"
	"verif/harness/internal/vf"

	"github.com/spf13/afero"
	"github.com/yandex/pandora/core/engine"
	"google.golang.org/grpc/codes"
	"pgregory.net/rapid"
)

type PCall struct {
	Method   string `json:"method"` // Hello | List | Order
	Count    int    `json:"count"`
	PauseMs  int    `json:"sleep_step_before_ms,omitempty"` // a sleep(N) step in front of the call
	SleepMs  int    `json:"sleep_after_each_ms,omitempty"`  // name(count, N)
	ServerMs int    `json:"server_takes_ms,omitempty"`      // every arrival is answered after that long
}

type PacedCase struct {
	TimeoutMs    int     `json:"timeout_ms"`
	AuthServerMs int     `json:"auth_server_takes_ms,omitempty"`
	AuthSleepMs  int     `json:"auth_sleep_after_ms,omitempty"` // auth(1, N)
	Calls        []PCall `json:"calls"`
	Shots        int     `json:"shots"`
	Instances    int     `json:"instances"`
	Mode         string  `json:"mode"` // what the generator built the case around (see genPaced)
}

// per mille of the timeout
func pm(timeout, permille int) int { return timeout * permille / 1000 }

const pacedBudgetMs = 3500 // planned duration of one invocation

// planned duration of one invocation (nominal: sleeps and server times)
func (c PacedCase) planned() int {
	d := c.AuthServerMs + c.AuthSleepMs
	for _, cl := range c.Calls {
		d += cl.PauseMs + cl.Count*(cl.ServerMs+cl.SleepMs)
	}
	return d
}

func genPaced(t *rapid.T) PacedCase {
	c := PacedCase{TimeoutMs: rapid.SampledFrom([]int{400, 500, 700}).Draw(t, "timeoutMs")}
	T := c.TimeoutMs
	c.Mode = rapid.SampledFrom([]string{"sleep_step", "sleep_step", "per_call_sleep", "slow_calls", "slow_calls", "mixed"}).Draw(t, "mode")
	long := func(label string) int { return pm(T, rapid.IntRange(1200, 2200).Draw(t, label)) } // beyond the timeout
	short := func(label string) int { return pm(T, rapid.IntRange(300, 800).Draw(t, label)) }  // a good part of it
	server := func(label string) int { return pm(T, rapid.IntRange(300, 400).Draw(t, label)) } // a slow, timely answer
	method := func() string { return rapid.SampledFrom([]string{"Hello", "List", "Order"}).Draw(t, "method") }
	switch c.Mode {
	case "sleep_step":
		n := rapid.IntRange(1, 3).Draw(t, "calls")
		at := rapid.IntRange(0, n-1).Draw(t, "pauseAt")
		for i := 0; i < n; i++ {
			cl := PCall{Method: method(), Count: rapid.IntRange(1, 2).Draw(t, "count")}
			if i == at {
				cl.PauseMs = long("pause")
			} else if rapid.IntRange(0, 2).Draw(t, "shortPause") == 0 {
				cl.PauseMs = short("pause")
			}
			if rapid.IntRange(0, 3).Draw(t, "slowAnswer") == 0 {
				cl.ServerMs = server("serverMs")
			}
			c.Calls = append(c.Calls, cl)
		}
	case "per_call_sleep":
		n := rapid.IntRange(1, 3).Draw(t, "calls")
		at := rapid.IntRange(-1, n-1).Draw(t, "sleepAt") // -1: after auth
		if at < 0 {
			c.AuthSleepMs = long("sleep")
		}
		for i := 0; i < n; i++ {
			cl := PCall{Method: method(), Count: rapid.IntRange(1, 2).Draw(t, "count")}
			if i == at {
				cl.SleepMs = long("sleep")
				if i == n-1 {
					cl.Count = 2 // the sleep after the first of them is in front of the second
				}
			}
			c.Calls = append(c.Calls, cl)
		}
	case "slow_calls":
		// no sleeps at all: the answers take their time
		c.AuthServerMs = server("serverMs")
		left := rapid.IntRange(3, 5).Draw(t, "slowCalls")
		for left > 0 {
			cl := PCall{Method: method(), Count: min(left, rapid.IntRange(1, 3).Draw(t, "count")), ServerMs: server("serverMs")}
			left -= cl.Count
			c.Calls = append(c.Calls, cl)
		}
	default:
		if rapid.Bool().Draw(t, "slowAuth") {
			c.AuthServerMs = server("serverMs")
		}
		if rapid.IntRange(0, 2).Draw(t, "authSleep") == 0 {
			c.AuthSleepMs = short("sleep")
		}
		n := rapid.IntRange(1, 4).Draw(t, "calls")
		for i := 0; i < n; i++ {
			cl := PCall{Method: method(), Count: rapid.IntRange(1, 3).Draw(t, "count")}
			switch rapid.IntRange(0, 4).Draw(t, "pauseKind") {
			case 0:
				cl.PauseMs = long("pause")
			case 1, 2:
				cl.PauseMs = short("pause")
			}
			switch rapid.IntRange(0, 5).Draw(t, "sleepKind") {
			case 0:
				cl.SleepMs = long("sleep")
			case 1:
				cl.SleepMs = short("sleep")
			}
			if rapid.Bool().Draw(t, "slowAnswer") {
				cl.ServerMs = server("serverMs")
			}
			c.Calls = append(c.Calls, cl)
		}
	}
	// keep an invocation within the budget: sleeps are taken away from the end, then multiplicities
	for i := len(c.Calls) - 1; i >= 0 && c.planned() > pacedBudgetMs; i-- {
		if c.Calls[i].SleepMs = 0; c.planned() > pacedBudgetMs {
			c.Calls[i].PauseMs = 0
		}
		if c.planned() > pacedBudgetMs {
			c.Calls[i].Count = 1
		}
	}
	c.Instances = rapid.IntRange(1, 2).Draw(t, "instances")
	c.Shots = rapid.IntRange(c.Instances, 2).Draw(t, "shots")
	return c
}

func (c PacedCase) yaml() string {
	var sb strings.Builder
	sb.WriteString("calls:\n")
	sb.WriteString("  - name: auth\n    tag: auth\n    call: target.TargetService.Auth\n    metadata:\n      x-step: auth\n")
	sb.WriteString("    payload: '{\"login\": \"l\", \"pass\": \"p\"}'\n")
	for i, cl := range c.Calls {
		fmt.Fprintf(&sb, "  - name: c%d\n    tag: t%d\n    call: target.TargetService.%s\n", i, i, cl.Method)
		fmt.Fprintf(&sb, "    metadata:\n      x-step: c%d\n      x-inv: \"{{.request.auth.postprocessor.token}}\"\n", i)
		switch cl.Method {
		case "Hello":
			sb.WriteString("    payload: '{\"name\": \"{{.request.auth.postprocessor.token}}\"}'\n")
		case "List":
			sb.WriteString("    payload: '{\"user_id\": {{.request.auth.postprocessor.userId}}, \"token\": \"{{.request.auth.postprocessor.token}}\"}'\n")
		default:
			sb.WriteString("    payload: '{\"user_id\": {{.request.auth.postprocessor.userId}}, \"item_id\": 5, \"token\": \"{{.request.auth.postprocessor.token}}\"}'\n")
		}
	}
	sb.WriteString("scenarios:\n  - name: sc\n    weight: 1\n    min_waiting_time: 0\n    requests:\n")
	if c.AuthSleepMs > 0 {
		fmt.Fprintf(&sb, "      - auth(1, %d)\n", c.AuthSleepMs)
	} else {
		sb.WriteString("      - auth\n")
	}
	for i, cl := range c.Calls {
		if cl.PauseMs > 0 {
			fmt.Fprintf(&sb, "      - sleep(%d)\n", cl.PauseMs)
		}
		switch {
		case cl.SleepMs > 0:
			fmt.Fprintf(&sb, "      - c%d(%d, %d)\n", i, cl.Count, cl.SleepMs)
		case cl.Count > 1:
			fmt.Fprintf(&sb, "      - c%d(%d)\n", i, cl.Count)
		default:
			fmt.Fprintf(&sb, "      - c%d\n", i)
		}
	}
	return sb.String()
}

// elapsed: the nominal time of the invocation that has passed when the k-th arrival of call i starts (sleeps and
// server times of everything before it), and which part of it were sleep steps, per-call sleeps, answers
func (c PacedCase) elapsed(i, k int) (total, pauses, sleeps, answers int) {
	answers = c.AuthServerMs
	sleeps = c.AuthSleepMs
	for j := 0; j <= i; j++ {
		cl := c.Calls[j]
		pauses += cl.PauseMs
		n := cl.Count
		if j == i {
			n = k
		}
		answers += n * cl.ServerMs
		sleeps += n * cl.SleepMs
	}
	return pauses + sleeps + answers, pauses, sleeps, answers
}

func checkPaced(c PacedCase, o *vf.Obs) error {
	tg := target.NewGRPC()
	defer tg.Close()
	T := time.Duration(c.TimeoutMs) * time.Millisecond
	var smu sync.Mutex
	authSeq := 0
	tg.ResetScript(func(call *target.GCall) target.GResp {
		r := target.GResp{Code: codes.OK, Hello: "h", Items: []int64{1}, OrderID: 1}
		step := strings.Join(call.MD.Get("x-step"), "|")
		if call.Method == "Auth" {
			smu.Lock()
			authSeq++
			n := authSeq
			smu.Unlock()
			r.Token = fmt.Sprintf("tok-%d", n)
			r.UserID = int64(1000 + n)
			r.DelayMs = c.AuthServerMs
			return r
		}
		if i, err := strconv.Atoi(strings.TrimPrefix(step, "c")); err == nil && i >= 0 && i < len(c.Calls) {
			r.DelayMs = c.Calls[i].ServerMs
		}
		return r
	})
	desc := c.yaml()
	name := pand.WriteFile("c20p", ".yaml", []byte(desc))
	defer pand.Remove(name)
	out := pand.TempName("c20p", ".phout")
	defer pand.Remove(out)
	gun := map[string]any{"type": "grpc/scenario", "target": tg.Addr(), "timeout": fmt.Sprintf("%dms", c.TimeoutMs)}
	pool := map[string]any{
		"id": "p", "gun": gun,
		"ammo":    map[string]any{"type": "grpc/scenario", "file": name, "limit": c.Shots},
		"result":  map[string]any{"type": "phout", "destination": out},
		"rps":     map[string]any{"type": "once", "times": c.Shots + 5},
		"startup": map[string]any{"type": "once", "times": c.Instances},
	}
	var conf engine.Config
	if err := pand.Decode(map[string]any{"pools": []any{pool}}, &conf); err != nil {
		return fmt.Errorf("valid pool config rejected: %v\n%s", err, desc)
	}
	eng := engine.New(pand.NopLog(), pand.Metrics(), conf)
	var runErr error
	ok, stacks := vf.Deadline(90*time.Second, func() { runErr = eng.Run(context.Background()) })
	if !ok {
		return fmt.Errorf("run did not finish in 90s (an invocation is planned to take %d ms)\n%s", c.planned(), stacks)
	}
	if runErr != nil {
		return fmt.Errorf("run failed: %v\n%s", runErr, desc)
	}
	eng.Wait()
	fail := func(format string, a ...any) error {
		return fmt.Errorf(format+"\n--- gun timeout %v; description ---\n%s", append(a, T, desc)...)
	}
	lines, data, err := readPhoutTags(out)
	if err != nil {
		return err
	}
	// ---- what the server saw ----
	calls := tg.Calls()
	arrived := map[string]map[string]int{} // token -> step -> arrivals
	auths := 0
	slack := T / 4
	for _, call := range calls {
		step, ok := one(call, "x-step")
		if !ok {
			return fail("%s call arrived with x-step metadata %q", call.Method, step)
		}
		idx, k := -1, 0
		if step == "auth" {
			auths++
		} else {
			i, err := strconv.Atoi(strings.TrimPrefix(step, "c"))
			if err != nil || i < 0 || i >= len(c.Calls) || c.Calls[i].Method != call.Method {
				return fail("%s call arrived with x-step=%q; no such call in the description", call.Method, step)
			}
			tok, ok := one(call, "x-inv")
			if !ok || !strings.HasPrefix(tok, "tok-") {
				return fail("call %s arrived with x-inv metadata %q, the template renders the token issued to this invocation", step, tok)
			}
			if arrived[tok] == nil {
				arrived[tok] = map[string]int{}
			}
			idx, k = i, arrived[tok][step]
			arrived[tok][step]++
		}
		// "within the configured timeout": the deadline a call carries is the gun's timeout counted from the call's own start
		before := 0
		if idx >= 0 {
			before, _, _, _ = c.elapsed(idx, k)
		}
		if !call.HasDeadline {
			return fail("call %s arrived without a deadline", step)
		}
		if call.Timeout > T {
			return fail("call %s arrived with %v left until its deadline, more than the gun's timeout", step, call.Timeout)
		}
		if call.Timeout < T-slack {
			return fail("call %s arrived with only %v left until its deadline; the gun's timeout is the timeout of one request and counts from the start of the call - nominally %d ms of the scenario (sleeps, earlier calls) had passed before this call",
				step, call.Timeout.Round(time.Millisecond), before)
		}
	}
	// samples first: a call that timed out on the client explains missing arrivals
	for _, l := range lines {
		if l.code != "200" {
			return fail("every call is answered OK after at most %d ms, but a sample says code %s (tag %s)\n%s", pm(c.TimeoutMs, 400), l.code, l.tag, data)
		}
	}
	if auths != c.Shots {
		return fail("%d Auth calls reached the server, %d invocations were shot", auths, c.Shots)
	}
	if len(arrived) > c.Shots {
		return fail("calls of %d different invocations (tokens) reached the server, %d were shot", len(arrived), c.Shots)
	}
	for n := 1; n <= c.Shots; n++ {
		tok := fmt.Sprintf("tok-%d", n)
		for i, cl := range c.Calls {
			step := fmt.Sprintf("c%d", i)
			if got := arrived[tok][step]; got != cl.Count {
				before, _, _, _ := c.elapsed(i, got)
				return fail("invocation %s: call %s reached the server %d times, the scenario lists it %d times (nominally %d ms of the scenario had passed before the missing call)\n%s",
					tok, step, got, cl.Count, before, data)
			}
		}
	}
	wantTags := map[string]int{"sc.auth": c.Shots}
	total := c.Shots
	for i, cl := range c.Calls {
		wantTags[fmt.Sprintf("sc.t%d", i)] += c.Shots * cl.Count
		total += c.Shots * cl.Count
	}
	tags := map[string]int{}
	for _, l := range lines {
		tags[l.tag]++
	}
	if len(lines) != total || fmt.Sprint(sortedCounts(tags)) != fmt.Sprint(sortedCounts(wantTags)) {
		return fail("samples by tag %v, expected %v", sortedCounts(tags), sortedCounts(wantTags))
	}
	// ---- classes ----
	o.Class("mode_" + c.Mode)
	beyond, beyondBySleepStep, beyondByCallSleep, beyondByAnswers, lateWithin := false, false, false, false, false
	for i, cl := range c.Calls {
		for k := 0; k < cl.Count; k++ {
			e, pauses, sleeps, answers := c.elapsed(i, k)
			if e > c.TimeoutMs {
				beyond = true
				beyondBySleepStep = beyondBySleepStep || pauses > c.TimeoutMs
				beyondByCallSleep = beyondByCallSleep || sleeps > c.TimeoutMs
				beyondByAnswers = beyondByAnswers || (answers > c.TimeoutMs && pauses+sleeps == 0)
			} else if e >= pm(c.TimeoutMs, 300) {
				lateWithin = true
			}
		}
	}
	o.ClassIf(beyond, "call_starts_after_timeout_has_passed_since_scenario_start")
	o.ClassIf(beyondBySleepStep, "beyond_timeout_by_sleep_steps")
	o.ClassIf(beyondByCallSleep, "beyond_timeout_by_per_call_sleep")
	o.ClassIf(beyondByAnswers, "beyond_timeout_by_slow_answers_only")
	o.ClassIf(lateWithin, "call_starts_late_within_timeout")
	o.ClassIf(c.Instances >= 2, "instances_ge_2")
	o.ClassIf(c.Shots >= 2, "invocations_ge_2")
	if beyond {
		o.NonTrivial()
	}
	return nil
}

type ptLine struct{ tag, code string }

func readPhoutTags(name string) ([]ptLine, string, error) {
	data, err := afero.ReadFile(pand.FS(), name)
	if err != nil {
		return nil, "", fmt.Errorf("phout not written: %v", err)
	}
	var out []ptLine
	for _, ln := range strings.Split(strings.TrimSuffix(string(data), "\n"), "\n") {
		if ln == "" {
			continue
		}
		f := strings.Split(ln, "\t")
		if len(f) != 12 {
			return nil, string(data), fmt.Errorf("phout line with %d columns: %q", len(f), ln)
		}
		out = append(out, ptLine{strings.SplitN(f[1], "|", 2)[0], f[11]})
	}
	return out, string(data), nil
}

// The case count per process is fixed here (vf.Batch): quick 12, thorough 60, eight at a time.
func TestGRPCScenarioPaced(t *testing.T) {
	pand.Init()
	r := vf.Start(t, "C20")
	vf.Batch(r, r.Pick(12, 60), 8, genPaced, vf.LoadTolerant(25*time.Millisecond, checkPaced))
}
