package c20

// gRPC scenario calls: payload and metadata templates rendered from data-source rows, prepare
// preprocessors and earlier responses must reach the server as the description says, per invocation.
//
// Oracle: a reference rendering computed from what the recording server itself handed out (unique
// token / user id per Auth call) and from the csv rows the harness wrote; independent of pandora's
// templater, preprocessor and dynamic-message code.

import (
	"context"
	"fmt"
	"regexp"
	"sort"
	"strconv"
	"strings"
	"sync"
	"sync/atomic"
	"testing"
	"time"

	"verif/harness/internal/pand"
	"verif/harness/internal/target"
	"verif/harness/internal/vf"

	"github.com/spf13/afero"
	"github.com/yandex/pandora/core/engine"
	server "github.com/yandex/pandora/examples/grpc/server"
	"google.golang.org/grpc/codes"
	"google.golang.org/protobuf/encoding/protojson"
	"google.golang.org/protobuf/proto"
	"pgregory.net/rapid"
)

// MD is one metadata entry of a call: where its value comes from.
//
//	lit    a literal
//	src    {{.source.vars.<k>}}                       (variables source)
//	login  {{.request.auth.preprocessor.user.login}}  (row handed out by source.users[next])
//	pass   {{.request.auth.preprocessor.user.pass}}
//	token  {{.request.auth.postprocessor.token}}      (captured from the Auth response of this invocation)
//	uid    {{.request.auth.postprocessor.userId}}
//	bearer Bearer {{.request.auth.postprocessor.token}}   (literal text around an action)
//	fmt    {{printf "%s/%s" .source.vars.hdr .request.auth.preprocessor.user.login}}   (a built-in function of Go templates)
//	uuid   {{uuid}}              (randomization functions of docs/eng/scenario/functions.md: the value is random, its
//	rint   {{randInt 100 200}}    form is what the documentation says)
//	rstr   {{randString 6}}
type MD struct {
	Key  string `json:"key"`
	Kind string `json:"kind"`
	Lit  string `json:"lit,omitempty"`
}

type SCall struct {
	Method string `json:"method"` // List | Order | Hello (fixed payload only)
	Count  int    `json:"count"`  // multiplicity name(n)
	MD     []MD   `json:"metadata"`
	// Payload, when not empty, is the call's payload written as is: a JSON text WITHOUT any template action (a
	// constant body, {} ...), so that only the call's metadata values may need rendering. Empty = the payload template
	// over this invocation's token and user id.
	Payload string `json:"fixed_payload,omitempty"`
}

type ScenCase struct {
	Rows      int     `json:"rows"`  // csv rows
	Shots     int     `json:"shots"` // scenario invocations (ammo limit)
	Instances int     `json:"instances"`
	AuthMD    []MD    `json:"auth_metadata"`
	Calls     []SCall `json:"calls"` // call definitions; the first scenario "sc" lists them in this order after the leading auth call
	Shared    bool    `json:"shared_client"`
	TimeoutMs int     `json:"timeout_ms"`
	// Further scenarios "sc1", "sc2" of the same file, referring to the SAME call definitions (auth and c<i>) in an
	// order and with multiplicities of their own. With several scenarios each one lists, right after auth, a marker
	// call m<k> of its own (Hello, name = the token of this invocation), by which the server's log tells which
	// scenario an invocation was.
	Extra  []Scen `json:"extra_scenarios,omitempty"`
	Weight int    `json:"weight,omitempty"` // weight of the first scenario (0 = 1)
	// reflect_port set to a second listener that serves only reflection (the service is on the target port)
	ReflectPort bool `json:"reflect_port,omitempty"`
	// Bad: one scenario of the description ends with a call "bad" whose call name is not a method of the target
	Bad *BadStep `json:"unknown_call,omitempty"`
}

// BadStep: scenario number Scen lists, after auth (and its marker call) and the first Keep of its calls, the call "bad"
// (tag bad, metadata x-step: bad, a payload template over this invocation's token) whose call name is UnknownCall. It is
// the last call the scenario lists, so that nothing depends on what becomes of the rest of an invocation after a failed
// call.
type BadStep struct {
	UnknownCall
	Scen int `json:"scenario"`
	Keep int `json:"keep"`
}

type SRef struct {
	Call  int `json:"call"`  // index into Calls
	Count int `json:"count"` // multiplicity
}

type Scen struct {
	Weight int    `json:"weight"`
	Refs   []SRef `json:"refs"`
}

func scenName(k int) string {
	if k == 0 {
		return "sc"
	}
	return fmt.Sprintf("sc%d", k)
}

// refs of scenario k (0 = the first one)
func (c ScenCase) refs(k int) []SRef {
	var out []SRef
	if k == 0 {
		out = make([]SRef, len(c.Calls))
		for i, cl := range c.Calls {
			out[i] = SRef{i, cl.Count}
		}
	} else {
		out = c.Extra[k-1].Refs
	}
	if c.Bad != nil && c.Bad.Scen == k && c.Bad.Keep < len(out) {
		out = out[:c.Bad.Keep] // the scenario ends with the unknown call after its first Keep calls
	}
	return out
}

func (c ScenCase) weight(k int) int {
	w := c.Weight
	if k > 0 {
		w = c.Extra[k-1].Weight
	}
	if w <= 0 {
		w = 1
	}
	return w
}

var mdKeys = []string{"authorization", "x-login", "x-pass", "x-user", "x-trace", "x-lit", "x-src", "payload", "url", "body"}

// random: the value of the kind is drawn anew at every rendering (only its form is known)
func (m MD) random() bool { return m.Kind == "uuid" || m.Kind == "rint" || m.Kind == "rstr" }

// perInvocation: the rendered value differs from invocation to invocation and is known to the harness
func (m MD) perInvocation() bool { return m.Kind != "lit" && m.Kind != "src" && !m.random() }

// fromResponse: the value comes from the Auth response of the same invocation
func (m MD) fromResponse() bool { return m.Kind == "token" || m.Kind == "uid" || m.Kind == "bearer" }

func (m MD) templated() bool { return m.Kind != "lit" }

func genMD(t *rapid.T, auth bool) []MD {
	n := rapid.IntRange(0, 4).Draw(t, "mdN")
	kinds := []string{"lit", "src", "login", "pass", "login", "fmt", "uuid", "rint", "rstr"}
	if !auth {
		kinds = append(kinds, "token", "token", "uid", "token", "uid", "bearer", "bearer")
	}
	seen := map[string]bool{}
	var out []MD
	for i := 0; i < n; i++ {
		k := rapid.SampledFrom(mdKeys).Draw(t, "mdKey")
		if seen[k] {
			continue
		}
		seen[k] = true
		m := MD{Key: k, Kind: rapid.SampledFrom(kinds).Draw(t, "mdKind")}
		if m.Kind == "lit" {
			m.Lit = rapid.StringMatching(`[a-zA-Z0-9 =;,._-]{0,12}`).Draw(t, "mdLit")
		}
		out = append(out, m)
	}
	return out
}

func genScenCase(t *rapid.T) ScenCase {
	c := ScenCase{
		Rows:      rapid.IntRange(1, 5).Draw(t, "rows"),
		Shots:     rapid.IntRange(1, 10).Draw(t, "shots"),
		Instances: rapid.IntRange(1, 4).Draw(t, "instances"),
		Shared:    rapid.Bool().Draw(t, "shared"),
	}
	c.TimeoutMs = rapid.SampledFrom([]int{400, 1000, 3000}).Draw(t, "timeoutMs")
	c.AuthMD = genMD(t, true)
	n := rapid.IntRange(1, 3).Draw(t, "calls")
	for i := 0; i < n; i++ {
		c.Calls = append(c.Calls, SCall{
			Method: rapid.SampledFrom([]string{"List", "Order"}).Draw(t, "method"),
			Count:  rapid.IntRange(1, 3).Draw(t, "count"),
			MD:     genMD(t, false),
		})
	}
	// one call in three has a payload without any template action (a constant body, an empty message, a hello /
	// health request): what changes per shot is only in its metadata
	for i := range c.Calls {
		if rapid.IntRange(0, 2).Draw(t, "fixedPayload") != 0 {
			continue
		}
		cl := &c.Calls[i]
		cl.Method = rapid.SampledFrom([]string{"List", "Order", "Hello", "Hello"}).Draw(t, "fixedMethod")
		body := map[string][]string{
			"Hello": {`{}`, `{"name": "load"}`, `{"name": "health check"}`},
			"List":  {`{}`, `{"user_id": 7, "token": "fixed"}`, `{"token": "t0"}`},
			"Order": {`{}`, `{"user_id": 7, "item_id": 8, "token": "fixed"}`, `{"itemId": "12"}`},
		}[cl.Method]
		cl.Payload = rapid.SampledFrom(body).Draw(t, "fixedBody")
	}
	c.ReflectPort = rapid.IntRange(0, 3).Draw(t, "reflectPort") == 0
	// two cases in three: 1-2 further scenarios over the same calls; the provider hands the scenarios out in turn by
	// weight, so one instance shoots them in mixed order
	for k, extra := 0, rapid.SampledFrom([]int{0, 1, 1, 2, 2, 2}).Draw(t, "extraScenarios"); k < extra; k++ {
		sc := Scen{Weight: rapid.IntRange(1, 3).Draw(t, "weight")}
		for r, refs := 0, rapid.IntRange(1, 4).Draw(t, "refs"); r < refs; r++ {
			sc.Refs = append(sc.Refs, SRef{
				Call:  rapid.IntRange(0, n-1).Draw(t, "refCall"),
				Count: rapid.SampledFrom([]int{1, 1, 2, 3}).Draw(t, "refCount"),
			})
		}
		c.Extra = append(c.Extra, sc)
	}
	if len(c.Extra) > 0 {
		c.Weight = rapid.IntRange(1, 3).Draw(t, "weight0")
	}
	// one description in three: one of its scenarios ends with a call to a method the target does not have, whose name
	// has one of many shapes; the invocations of the other scenarios (and the later invocations of this one) must go on
	if rapid.IntRange(0, 2).Draw(t, "unknownCall") == 0 {
		b := BadStep{UnknownCall: genUnknownCall(t), Scen: rapid.IntRange(0, len(c.Extra)).Draw(t, "unknownCallScenario")}
		b.Keep = rapid.IntRange(0, len(c.refs(b.Scen))).Draw(t, "unknownCallAfter")
		c.Bad = &b
	}
	return c
}

const srcVal = "yandex-7"

func mdTemplate(m MD) string {
	switch m.Kind {
	case "lit":
		return m.Lit
	case "src":
		return "{{.source.vars.hdr}}"
	case "login":
		return "{{.request.auth.preprocessor.user.login}}"
	case "pass":
		return "{{.request.auth.preprocessor.user.pass}}"
	case "token":
		return "{{.request.auth.postprocessor.token}}"
	case "uid":
		return "{{.request.auth.postprocessor.userId}}"
	case "bearer":
		return "Bearer {{.request.auth.postprocessor.token}}"
	case "fmt":
		return `{{printf "%s/%s" .source.vars.hdr .request.auth.preprocessor.user.login}}`
	case "uuid":
		return "{{uuid}}"
	case "rint":
		return "{{randInt 100 200}}"
	case "rstr":
		return "{{randString 6}}"
	}
	return ""
}

var (
	reUUID = regexp.MustCompile(`^[0-9a-f]{8}-[0-9a-f]{4}-4[0-9a-f]{3}-[89ab][0-9a-f]{3}-[0-9a-f]{12}$`)
	reRStr = regexp.MustCompile(`^[^{}]{6}$`) // "a string of length X"; the alphabet is not documented
)

// mdWant is the text the metadata value renders to for the invocation; for the random kinds ok tells whether got has
// the documented form (want is then a description of it).
func mdWant(m MD, iv *inv, got string) (want string, ok bool) {
	switch m.Kind {
	case "lit":
		want = m.Lit
	case "src":
		want = srcVal
	case "login":
		want = iv.login
	case "pass":
		want = iv.pass
	case "token":
		want = iv.token
	case "uid":
		want = strconv.FormatInt(iv.uid, 10)
	case "bearer":
		want = "Bearer " + iv.token
	case "fmt":
		want = srcVal + "/" + iv.login
	case "uuid":
		return "a uuid v4", reUUID.MatchString(got)
	case "rint":
		n, err := strconv.Atoi(got)
		return "a number between 100 and 200", err == nil && n >= 100 && n <= 200
	case "rstr":
		return "a random string of length 6", reRStr.MatchString(got)
	}
	return want, got == want
}

func yq(s string) string { return strconv.Quote(s) } // a JSON string is a valid YAML double-quoted scalar

// runSeq numbers the evaluations of this process: every call of a description carries the literal metadata
// x-run: r<n>, by which a call that an EARLIER evaluation's client had given up on (its timeout passed on a starved
// machine before the server got to it) is told from the calls of this evaluation.
var runSeq atomic.Int64

func (c ScenCase) yaml(csv string, runID string) string {
	var sb strings.Builder
	fmt.Fprintf(&sb, "variable_sources:\n  - type: file/csv\n    name: users\n    file: %s\n    fields: [user_id, login, pass]\n    ignore_first_line: false\n    delimiter: \",\"\n", csv)
	fmt.Fprintf(&sb, "  - type: variables\n    name: vars\n    variables:\n      hdr: %s\n      item: 31\n", srcVal)
	sb.WriteString("calls:\n")
	writeMD := func(step string, mds []MD) {
		sb.WriteString("    metadata:\n")
		fmt.Fprintf(&sb, "      x-step: %s\n      x-run: %s\n", step, runID)
		for _, m := range mds {
			fmt.Fprintf(&sb, "      %s: %s\n", m.Key, yq(mdTemplate(m)))
		}
	}
	sb.WriteString("  - name: auth\n    tag: auth\n    call: target.TargetService.Auth\n")
	writeMD("auth", c.AuthMD)
	sb.WriteString("    preprocessors:\n      - type: prepare\n        mapping:\n          user: source.users[next]\n")
	sb.WriteString("    payload: '{\"login\": \"{{.request.auth.preprocessor.user.login}}\", \"pass\": \"{{.request.auth.preprocessor.user.pass}}\"}'\n")
	sb.WriteString("    postprocessors:\n      - type: assert/response\n        payload: [\"token\"]\n        status_code: 200\n")
	for i, cl := range c.Calls {
		fmt.Fprintf(&sb, "  - name: c%d\n    tag: t%d\n    call: target.TargetService.%s\n", i, i, cl.Method)
		writeMD(fmt.Sprintf("c%d", i), cl.MD)
		if cl.Payload != "" {
			fmt.Fprintf(&sb, "    payload: %s\n", yq(cl.Payload))
		} else if cl.Method == "List" {
			sb.WriteString("    payload: '{\"user_id\": {{.request.auth.postprocessor.userId}}, \"token\": \"{{.request.auth.postprocessor.token}}\"}'\n")
		} else {
			sb.WriteString("    payload: '{\"user_id\": {{.request.auth.postprocessor.userId}}, \"item_id\": {{.source.vars.item}}, \"token\": \"{{.request.auth.postprocessor.token}}\"}'\n")
		}
	}
	multi := len(c.Extra) > 0
	if multi {
		for k := 0; k <= len(c.Extra); k++ {
			fmt.Fprintf(&sb, "  - name: m%d\n    tag: m%d\n    call: target.TargetService.Hello\n    metadata:\n      x-step: m%d\n      x-run: %s\n", k, k, k, runID)
			sb.WriteString("    payload: '{\"name\": \"{{.request.auth.postprocessor.token}}\"}'\n")
		}
	}
	if b := c.Bad; b != nil {
		sb.WriteString("  - name: bad\n    tag: bad\n")
		if !b.NoKey {
			fmt.Fprintf(&sb, "    call: %s\n", yq(b.Name))
		}
		fmt.Fprintf(&sb, "    metadata:\n      x-step: bad\n      x-run: %s\n", runID)
		sb.WriteString("    payload: '{\"name\": \"{{.request.auth.postprocessor.token}}\"}'\n")
	}
	sb.WriteString("scenarios:\n")
	for k := 0; k <= len(c.Extra); k++ {
		fmt.Fprintf(&sb, "  - name: %s\n    weight: %d\n    min_waiting_time: 0\n    requests:\n      - auth\n", scenName(k), c.weight(k))
		if multi {
			fmt.Fprintf(&sb, "      - m%d\n", k)
		}
		for _, r := range c.refs(k) {
			if r.Count == 1 {
				fmt.Fprintf(&sb, "      - c%d\n", r.Call)
			} else {
				fmt.Fprintf(&sb, "      - c%d(%d)\n", r.Call, r.Count)
			}
		}
		if c.Bad != nil && c.Bad.Scen == k {
			sb.WriteString("      - bad\n")
		}
	}
	return sb.String()
}

type inv struct {
	login, pass, token string
	uid                int64
	calls              map[string]int // step -> calls seen
	scen               int            // which scenario it was, by its marker call (several scenarios only)
	markers            int
}

func one(call target.GCall, k string) (string, bool) {
	v := call.MD.Get(k)
	if len(v) != 1 {
		return strings.Join(v, "|"), false
	}
	return v[0], true
}

func checkScen(c ScenCase, o *vf.Obs) error {
	tg, mu := target.SharedGRPC()
	mu.Lock()
	defer mu.Unlock()
	var smu sync.Mutex
	authSeq := int64(0)
	issuedTo := map[int]int64{} // sequence number of the Auth call in the server's log -> number of the token it was given
	tg.ResetScript(func(call *target.GCall) target.GResp {
		r := target.GResp{Code: codes.OK, Hello: "h", Items: []int64{1}, OrderID: 1}
		if call.Method == "Auth" {
			smu.Lock()
			authSeq++
			n := authSeq
			issuedTo[call.Seq] = n // concurrent Auth calls may be logged and answered in different orders
			smu.Unlock()
			r.Token = fmt.Sprintf("tok-%d-%d", n, n*7919)
			r.UserID = 1000 + n
		}
		return r
	})
	var csv strings.Builder
	for i := 0; i < c.Rows; i++ {
		fmt.Fprintf(&csv, "%d,login%d,pass%d\n", i+1, i, i)
	}
	csvName := pand.WriteFile("c20u", ".csv", []byte(csv.String()))
	defer pand.Remove(csvName)
	runN := runSeq.Add(1)
	runID := fmt.Sprintf("r%d", runN)
	desc := c.yaml(csvName, runID)
	name := pand.WriteFile("c20s", ".yaml", []byte(desc))
	defer pand.Remove(name)
	out := pand.TempName("c20s", ".phout")
	defer pand.Remove(out)
	if c.TimeoutMs == 0 {
		c.TimeoutMs = 2000
	}
	gun := map[string]any{"type": "grpc/scenario", "target": tg.Addr(), "timeout": fmt.Sprintf("%dms", c.TimeoutMs)}
	var rf *target.GRPCReflect
	if c.ReflectPort {
		rf = target.SharedGRPCReflect() // used under the shared target's lock
		rf.Reset()
		gun["reflect_port"] = rf.Port()
	}
	pool := map[string]any{
		"id": "p", "gun": gun,
		"ammo":    map[string]any{"type": "grpc/scenario", "file": name, "limit": c.Shots},
		"result":  map[string]any{"type": "phout", "destination": out},
		"rps":     map[string]any{"type": "once", "times": c.Shots + 5},
		"startup": map[string]any{"type": "once", "times": c.Instances},
	}
	var conf engine.Config
	if err := pand.Decode(map[string]any{"pools": []any{pool}}, &conf); err != nil {
		return fmt.Errorf("valid pool config rejected: %v\n%s", err, desc)
	}
	eng := engine.New(pand.NopLog(), pand.Metrics(), conf)
	var runErr error
	ok, stacks := vf.Deadline(60*time.Second, func() { runErr = eng.Run(context.Background()) })
	if !ok {
		return fmt.Errorf("run did not finish in 60s\n%s", stacks)
	}
	if runErr != nil {
		return fmt.Errorf("run failed: %v\n%s", runErr, desc)
	}
	eng.Wait()

	fail := func(format string, a ...any) error {
		return fmt.Errorf(format+"\n--- description ---\n%s", append(a, desc)...)
	}
	if rf != nil {
		if stray := rf.Stray(); len(stray) > 0 {
			return fail("%d calls (first: %s) arrived at the reflection port %d; the gun's target is %s and reflect_port is only where the reflection service is",
				len(stray), stray[0], rf.Port(), tg.Addr())
		}
		if rf.Streams() == 0 {
			return fail("reflect_port is set to %d but no reflection stream was opened on that port", rf.Port())
		}
	}
	// ---- group the server's calls into invocations by the token the server itself issued ----
	byToken := map[string]*inv{}
	var invs []*inv
	// the server answers at once: a sample that says 504 is a call that timed out on the client (reported first, so that
	// what follows from it - the rest of the invocation is not shot - is not mistaken for something else)
	if data, err := afero.ReadFile(pand.FS(), out); err == nil {
		for _, ln := range strings.Split(string(data), "\n") {
			if f := strings.Split(ln, "\t"); len(f) == 12 && f[11] == "504" {
				return fail("a call answered OK left a sample with code 504: %q", ln)
			}
		}
	}
	var calls []target.GCall
	for _, call := range tg.Calls() {
		v, ok := one(call, "x-run")
		if n, err := strconv.ParseInt(strings.TrimPrefix(v, "r"), 10, 64); ok && err == nil && strings.HasPrefix(v, "r") && n >= 1 && n < runN {
			continue // a call of an earlier evaluation that reached the handler only now
		}
		if !ok || v != runID {
			return fail("%s call arrived with x-run metadata %q, every call of the description carries the literal %q", call.Method, v, runID)
		}
		if step, _ := one(call, "x-step"); step == "bad" {
			return fail("the call \"bad\" names %q (shape %s), which is not a method of the target, but the server received a %s call with its metadata: %v",
				c.Bad.Name, c.Bad.Shape, call.Method, call.Req)
		}
		calls = append(calls, call)
	}
	type resp struct {
		token string
		uid   int64
	}
	// what the script handed out to each Auth call of the log
	issued := map[int]resp{}
	smu.Lock()
	for seq, n := range issuedTo {
		issued[seq] = resp{fmt.Sprintf("tok-%d-%d", n, n*7919), 1000 + n}
	}
	smu.Unlock()
	rowOf := map[string]int{}
	for i := 0; i < c.Rows; i++ {
		rowOf[fmt.Sprintf("login%d", i)] = i
	}
	for _, call := range calls {
		// "within the configured timeout": every call carries a deadline no later than the gun's timeout
		if !call.HasDeadline {
			return fail("%s call arrived without a deadline although the gun's timeout is %dms", call.Method, c.TimeoutMs)
		}
		if call.Timeout > time.Duration(c.TimeoutMs)*time.Millisecond {
			return fail("%s call arrived with %v left until its deadline, the gun's timeout is %dms", call.Method, call.Timeout, c.TimeoutMs)
		}
	}
	for _, call := range calls {
		if call.Method != "Auth" {
			continue
		}
		req := call.Req.(*server.AuthRequest)
		row, known := rowOf[req.Login]
		if !known || req.Pass != fmt.Sprintf("pass%d", row) {
			return fail("Auth call carries login=%q pass=%q: not one row of the users source", req.Login, req.Pass)
		}
		iv := &inv{login: req.Login, pass: req.Pass, token: issued[call.Seq].token, uid: issued[call.Seq].uid, calls: map[string]int{}}
		byToken[iv.token] = iv
		invs = append(invs, iv)
		if err := checkMD(call, "auth", c.AuthMD, iv); err != nil {
			return fail("%v", err)
		}
	}
	if len(invs) != c.Shots {
		return fail("%d Auth calls reached the server, %d scenario invocations were shot", len(invs), c.Shots)
	}
	multi := len(c.Extra) > 0
	// calls with a fixed payload carry nothing in their message that tells the invocation: what arrived for such a
	// call - the metadata values of each arrival, in the order of the description - is compared as a multiset with the
	// renderings for the invocations whose scenario lists the call (below)
	fixedGot := map[int][]string{}
	for _, call := range calls {
		if call.Method == "Auth" {
			continue
		}
		if step, ok := one(call, "x-step"); ok && strings.HasPrefix(step, "c") {
			if idx, err := strconv.Atoi(strings.TrimPrefix(step, "c")); err == nil && idx >= 0 && idx < len(c.Calls) && c.Calls[idx].Payload != "" {
				cl := c.Calls[idx]
				if cl.Method != call.Method {
					return fail("call %s is a %s in the description, the server got a %s with its metadata", step, cl.Method, call.Method)
				}
				want := newReq(cl.Method)
				if err := protojson.Unmarshal([]byte(cl.Payload), want); err != nil {
					return fmt.Errorf("harness: reference parse of a fixed payload failed: %v (%s)", err, cl.Payload)
				}
				if !proto.Equal(call.Req, want) {
					return fail("call %s (%s): server received %v, the payload %s means %v", step, cl.Method, call.Req, cl.Payload, want)
				}
				var tuple []string
				for _, m := range cl.MD {
					got, ok := one(call, m.Key)
					if m.random() {
						if form, fits := mdWant(m, nil, got); !ok || !fits {
							return fail("call %s: metadata %s = %q at the server; its template %q renders to %s", step, m.Key, got, mdTemplate(m), form)
						}
						got = "<random>"
					} else if !ok {
						return fail("call %s: metadata %s arrived with %d values (%q), the description gives one", step, m.Key, len(call.MD.Get(m.Key)), got)
					}
					tuple = append(tuple, m.Key+"="+strconv.Quote(got))
				}
				fixedGot[idx] = append(fixedGot[idx], strings.Join(tuple, " "))
				continue
			}
		}
		var token string
		var uid, item int64
		switch r := call.Req.(type) {
		case *server.HelloRequest:
			// the marker call of a scenario: name = the token of the invocation
			iv := byToken[r.Name]
			if !multi || iv == nil {
				return fail("unexpected Hello call (name %q): no scenario of the description renders it", r.Name)
			}
			step, ok := one(call, "x-step")
			k, err := strconv.Atoi(strings.TrimPrefix(step, "m"))
			if !ok || !strings.HasPrefix(step, "m") || err != nil || k < 0 || k > len(c.Extra) {
				return fail("Hello call arrived with x-step metadata %q, the marker calls carry m0..m%d", step, len(c.Extra))
			}
			iv.scen = k
			iv.markers++
			continue
		case *server.ListRequest:
			token, uid = r.Token, r.UserId
		case *server.OrderRequest:
			token, uid, item = r.Token, r.UserId, r.ItemId
			if item != 31 {
				return fail("Order call carries item_id=%d, the payload template renders source.vars.item = 31", item)
			}
		default:
			return fail("unexpected call %s", call.Method)
		}
		iv := byToken[token]
		if iv == nil {
			return fail("%s call carries token %q which the server never issued", call.Method, token)
		}
		if uid != iv.uid {
			return fail("%s call carries token %q with user_id %d; the Auth response that issued this token said userId %d", call.Method, token, uid, iv.uid)
		}
		step, ok := one(call, "x-step")
		if !ok {
			return fail("%s call arrived with x-step metadata %q", call.Method, step)
		}
		idx, err := strconv.Atoi(strings.TrimPrefix(step, "c"))
		if err != nil || idx < 0 || idx >= len(c.Calls) {
			return fail("%s call arrived with x-step=%q that no call of the description carries", call.Method, step)
		}
		if c.Calls[idx].Method != call.Method {
			return fail("call %s is a %s in the description, the server got a %s with its metadata", step, c.Calls[idx].Method, call.Method)
		}
		if err := checkMD(call, step, c.Calls[idx].MD, iv); err != nil {
			return fail("%v", err)
		}
		iv.calls[step]++
	}
	scenSeen := map[int]int{}
	for _, iv := range invs {
		if multi && iv.markers != 1 {
			return fail("invocation of %s (token %s): %d marker calls reached the server, every scenario lists exactly one", iv.login, iv.token, iv.markers)
		}
		scenSeen[iv.scen]++
		want := make([]int, len(c.Calls))
		for _, r := range c.refs(iv.scen) {
			want[r.Call] += r.Count
		}
		for i := range c.Calls {
			if c.Calls[i].Payload != "" {
				continue // compared as a multiset over all invocations below
			}
			if got := iv.calls[fmt.Sprintf("c%d", i)]; got != want[i] {
				return fail("invocation of %s (token %s, scenario %s): call c%d reached the server %d times, the scenario lists it %d times",
					iv.login, iv.token, scenName(iv.scen), i, got, want[i])
			}
		}
	}
	fixedShot, fixedTemplated, fixedPerInv := false, false, false
	for i, cl := range c.Calls {
		if cl.Payload == "" {
			continue
		}
		var wantTuples []string
		for _, iv := range invs {
			n := 0
			for _, r := range c.refs(iv.scen) {
				if r.Call == i {
					n += r.Count
				}
			}
			var tuple []string
			for _, m := range cl.MD {
				w := "<random>"
				if !m.random() {
					w, _ = mdWant(m, iv, "")
				}
				tuple = append(tuple, m.Key+"="+strconv.Quote(w))
			}
			for ; n > 0; n-- {
				wantTuples = append(wantTuples, strings.Join(tuple, " "))
			}
		}
		got := append([]string(nil), fixedGot[i]...)
		sort.Strings(got)
		sort.Strings(wantTuples)
		if strings.Join(got, "\n") != strings.Join(wantTuples, "\n") {
			return fail("call c%d (fixed payload %s) reached the server %d times with the metadata\n  %s\nits metadata templates rendered for the %d invocations whose scenario lists it give %d calls with\n  %s",
				i, cl.Payload, len(got), strings.Join(got, "\n  "), len(invs), len(wantTuples), strings.Join(wantTuples, "\n  "))
		}
		if len(wantTuples) > 0 {
			fixedShot = true
			for _, m := range cl.MD {
				fixedTemplated = fixedTemplated || m.templated()
				fixedPerInv = fixedPerInv || m.perInvocation()
			}
		}
	}
	// [next]: rows are handed out consecutively round-robin over all instances
	gotRows := map[string]int{}
	for _, iv := range invs {
		gotRows[iv.login]++
	}
	for i := 0; i < c.Rows && !multi; i++ {
		want := c.Shots / c.Rows
		if i < c.Shots%c.Rows {
			want++
		}
		if got := gotRows[fmt.Sprintf("login%d", i)]; got != want {
			return fail("users[next] over %d invocations with %d rows: row %d was used %d times, expected %d (all: %v)", c.Shots, c.Rows, i, got, want, gotRows)
		}
	}
	// ---- samples: one per executed call, tagged <scenario>.<call tag> ----
	data, err := afero.ReadFile(pand.FS(), out)
	if err != nil {
		return fmt.Errorf("phout not written: %v", err)
	}
	tags := map[string]int{}
	for _, ln := range strings.Split(strings.TrimSuffix(string(data), "\n"), "\n") {
		if ln == "" {
			continue
		}
		f := strings.Split(ln, "\t")
		if len(f) != 12 {
			return fmt.Errorf("phout line with %d columns: %q", len(f), ln)
		}
		tag := strings.SplitN(f[1], "|", 2)[0]
		if c.Bad != nil && tag == scenName(c.Bad.Scen)+".bad" {
			// "an unknown method ... yields a failed sample for that entry"
			if f[11] == "200" {
				return fail("the call \"bad\" names %q (shape %s), which is not a method of the target, but its sample reports success: %q", c.Bad.Name, c.Bad.Shape, ln)
			}
		} else if f[11] != "200" {
			return fail("a call answered OK left a sample with code %s: %q", f[11], ln)
		}
		tags[tag]++
	}
	wantTags := map[string]int{}
	for _, iv := range invs {
		sn := scenName(iv.scen)
		wantTags[sn+".auth"]++
		if multi {
			wantTags[fmt.Sprintf("%s.m%d", sn, iv.scen)]++
		}
		for _, r := range c.refs(iv.scen) {
			wantTags[fmt.Sprintf("%s.t%d", sn, r.Call)] += r.Count
		}
		if c.Bad != nil && c.Bad.Scen == iv.scen {
			wantTags[sn+".bad"]++ // one failed sample per invocation of the scenario that lists the unknown call
		}
	}
	if fmt.Sprint(sortedCounts(tags)) != fmt.Sprint(sortedCounts(wantTags)) {
		return fail("samples by tag %v, expected %v", sortedCounts(tags), sortedCounts(wantTags))
	}
	perInv, captured := false, false
	sharedPerInv := false // a call with per-invocation metadata that invocations of two different scenarios made
	for i, cl := range c.Calls {
		callPerInv := false
		for _, m := range cl.MD {
			if m.fromResponse() {
				captured = true
			}
			if m.perInvocation() {
				perInv, callPerInv = true, true
			}
		}
		o.ClassIf(cl.Count > 1, "multiplicity_gt_1")
		users := 0
		for k := range scenSeen {
			for _, r := range c.refs(k) {
				if r.Call == i {
					users++
					break
				}
			}
		}
		sharedPerInv = sharedPerInv || (callPerInv && users >= 2)
	}
	// the order in which the Auth calls arrived: did some scenario come back after another one was shot
	switches := 0
	for a := 1; a < len(invs); a++ {
		if invs[a].scen != invs[a-1].scen {
			switches++
		}
	}
	mixed := switches >= 2
	for _, m := range c.AuthMD {
		if (m.Kind == "login" || m.Kind == "pass") && len(scenSeen) >= 2 {
			sharedPerInv = true // auth is every scenario's first call
		}
	}
	fnMD, randMD := false, false
	for _, mds := range append([][]MD{c.AuthMD}, func() (out [][]MD) {
		for _, cl := range c.Calls {
			out = append(out, cl.MD)
		}
		return
	}()...) {
		for _, m := range mds {
			fnMD = fnMD || m.Kind == "fmt" || m.random()
			randMD = randMD || m.random()
		}
	}
	if b := c.Bad; b != nil {
		badShot := scenSeen[b.Scen]
		o.Class("unknown_call_name", "unknown_call_"+b.Shape)
		o.ClassIf(badShot > 0, "unknown_call_shot")
		o.ClassIf(badShot > 0 && b.withoutDot(), "unknown_call_name_without_dot_shot")
		// invocations that must go on around the failed ones: those of other scenarios (or, shot >= 2 times, the later ones of the same)
		o.ClassIf(badShot > 0 && len(invs) > badShot, "unknown_call_among_good_scenarios")
		o.ClassIf(badShot > 0 && b.withoutDot() && len(invs) > badShot, "unknown_call_name_without_dot_among_good_scenarios")
		o.ClassIf(badShot >= 2, "unknown_call_shot_ge_2_times")
		o.ClassIf(badShot > 0 && b.Keep > 0, "unknown_call_after_good_calls")
	}
	o.ClassIf(fixedShot, "fixed_payload_call")
	o.ClassIf(fixedTemplated, "fixed_payload_templated_metadata")
	o.ClassIf(fixedPerInv, "fixed_payload_per_invocation_metadata")
	o.ClassIf(fixedPerInv && len(invs) >= 2, "fixed_payload_per_invocation_metadata_ge_2_invocations")
	o.ClassIf(fnMD, "metadata_with_template_function")
	o.ClassIf(randMD, "metadata_with_random_function")
	o.ClassIf(c.ReflectPort, "reflect_port")
	o.ClassIf(multi, "several_scenarios")
	o.ClassIf(len(scenSeen) >= 2, "several_scenarios_shot")
	o.ClassIf(len(scenSeen) >= 2 && mixed, "scenarios_in_mixed_order")
	o.ClassIf(sharedPerInv, "shared_call_per_invocation_metadata")
	o.ClassIf(sharedPerInv && c.Instances == 1, "shared_call_per_invocation_metadata_one_instance")
	for _, m := range c.AuthMD {
		if m.Kind == "login" || m.Kind == "pass" {
			perInv = true
		}
	}
	o.ClassIf(perInv, "metadata_per_invocation_value")
	o.ClassIf(captured, "metadata_from_earlier_response")
	o.ClassIf(c.Instances >= 2, "instances_ge_2")
	o.ClassIf(c.Instances >= 2 && perInv && c.Shots >= 2, "per_invocation_metadata_with_concurrent_instances")
	o.ClassIf(c.Shots > c.Rows, "rows_wrap_around")
	if perInv && c.Shots >= 2 {
		o.NonTrivial()
	}
	return nil
}

func sortedCounts(m map[string]int) []string {
	var out []string
	for k, v := range m {
		out = append(out, fmt.Sprintf("%s=%d", k, v))
	}
	sort.Strings(out)
	return out
}

func checkMD(call target.GCall, step string, mds []MD, iv *inv) error {
	if got, ok := one(call, "x-step"); !ok || got != step {
		return fmt.Errorf("call %s arrived with x-step metadata %q", step, got)
	}
	for _, m := range mds {
		got, ok := one(call, m.Key)
		want, fits := mdWant(m, iv, got)
		if !ok || !fits {
			return fmt.Errorf("call %s of the invocation (login %s, token %s): metadata %s = %q at the server; its template %q renders to %q for this invocation",
				step, iv.login, iv.token, m.Key, got, mdTemplate(m), want)
		}
	}
	return nil
}

func TestGRPCScenario(t *testing.T) {
	pand.Init()
	r := vf.Start(t, "C20")
	vf.Check(r, genScenCase, vf.LoadTolerant(25*time.Millisecond, checkScen))
}
