// C20 — gRPC wire fidelity: method, message and metadata reach the server as written.
//
// Oracle: differential — the payload parsed with protojson into the GENERATED request
// type (independent of the gun's reflection + dynamic-message path) must be
// proto.Equal to what the recording server received.
package c20

import (
	"context"
	"encoding/json"
	"fmt"
	"strconv"
	"strings"
	"testing"
	"time"

	"verif/harness/internal/pand"
	"verif/harness/internal/target"
	"verif/harness/internal/vf"

	"github.com/spf13/afero"
	"github.com/yandex/pandora/core/engine"
	server "github.com/yandex/pandora/examples/grpc/server"
	"google.golang.org/grpc/codes"
	"google.golang.org/protobuf/encoding/protojson"
	"google.golang.org/protobuf/proto"
	"pgregory.net/rapid"
)

type Entry struct {
	Method   string            `json:"method"`  // Hello Auth List Order | Nope (unknown)
	Payload  string            `json:"payload"` // JSON object text
	Metadata map[string]string `json:"metadata,omitempty"`
	Invalid  string            `json:"invalid,omitempty"` // "" | unknown_method | unknown_field | wrong_type
	Stall    bool              `json:"stall,omitempty"`
	// Unknown (only with Invalid == unknown_method): the call name as written, one of many shapes of a name that is not a
	// method of the target; nil = target.TargetService.Nope (cases recorded before the field existed)
	Unknown *UnknownCall `json:"unknown_call,omitempty"`
}

// callField is the entry's "call" member as written into the ammo line (with the separating comma), or nothing when the
// key is left out.
func (e Entry) callField() string {
	switch {
	case e.Unknown == nil:
		return fmt.Sprintf(`"call": "target.TargetService.%s", `, e.Method)
	case e.Unknown.NoKey:
		return ""
	}
	return fmt.Sprintf(`"call": %s, `, mustJSON(e.Unknown.Name))
}

type Case struct {
	Entries      []Entry `json:"entries"`
	TimeoutMs    int     `json:"timeout_ms"`
	SharedClient bool    `json:"shared_client"`
	Instances    int     `json:"instances"`
	Long         bool    `json:"long_file,omitempty"`
	// shared-client.client-number: 0 = 2 (cases recorded before the field existed), -1 = not written (the documented
	// default, 1), otherwise the number written
	ClientNumber int `json:"client_number,omitempty"`
	// reflect_port is set to the port of a second listener that serves ONLY reflection ("If your reflection service is
	// located on a port other than the main server", docs/eng/grpc-generator.md); the service is on the target port
	ReflectPort bool `json:"reflect_port,omitempty"`
	// Passes: how often the provider goes through the file (0 = 1); every pass must reach the server like the first,
	// also when the provider's ammo objects have been released and handed out again meanwhile
	Passes int `json:"passes,omitempty"`
}

func (c Case) passes() int {
	if c.Passes < 1 {
		return 1
	}
	return c.Passes
}

// clients is the number of shared clients the case's configuration asks for.
func (c Case) clients() int {
	switch {
	case c.ClientNumber == 0:
		return 2
	case c.ClientNumber < 0:
		return 1
	}
	return c.ClientNumber
}

var strPool = []string{"", "a", "user name", "пользователь", "日本", "q\"uote", "back\\slash", "tab\there", "{{not a template}}", "x y z"}

func genStr(t *rapid.T, label string) string {
	if rapid.Bool().Draw(t, label+"Pool") {
		return rapid.SampledFrom(strPool).Draw(t, label)
	}
	return rapid.StringMatching(`[a-zA-Z0-9 _.-]{0,12}`).Draw(t, label+"Rnd")
}

func genInt(t *rapid.T, label string) any {
	v := rapid.Int64Range(-(1<<53), 1<<53).Draw(t, label)
	switch rapid.IntRange(0, 3).Draw(t, label+"Enc") {
	case 0:
		return strconv.FormatInt(v, 10) // proto3 JSON allows int64 as string
	case 1:
		big := rapid.Int64().Draw(t, label+"Big")
		return strconv.FormatInt(big, 10) // beyond 2^53 only as string
	default:
		return v
	}
}

// Listed finding: a JSON ARRAY given for a scalar field is not rejected by the dynamic-message JSON decoder the grpc gun
// uses (github.com/jhump/protoreflect dynamic.Message.UnmarshalJSON): the last element is taken, {"name": ["a","b"]}
// reaches the server as name:"b". While it is listed the generator draws another ill-typed value instead.
const findingArrayForScalar = "grpc-json-array-for-scalar-field-accepted"

var curRun *vf.Run // set by the test functions; genEntry consults the known-findings list through it

func notArrayIfKnown(v any) any {
	if _, isArr := v.([]any); isArr && curRun != nil && curRun.IsKnown(findingArrayForScalar) {
		curRun.Excluded(findingArrayForScalar)
		return map[string]any{"x": 1}
	}
	return v
}

func genEntry(t *rapid.T, idx int) Entry {
	e := Entry{}
	e.Method = rapid.SampledFrom([]string{"Hello", "Auth", "List", "Order"}).Draw(t, "method")
	p := map[string]any{}
	opt := func(k string, v func() any) {
		if rapid.IntRange(0, 3).Draw(t, "has_"+k) != 0 {
			p[k] = v()
		}
	}
	switch e.Method {
	case "Hello":
		opt("name", func() any { return genStr(t, "name") })
	case "Auth":
		opt("login", func() any { return genStr(t, "login") })
		opt("pass", func() any { return genStr(t, "pass") })
	case "List":
		opt("token", func() any { return genStr(t, "token") })
		opt(rapid.SampledFrom([]string{"user_id", "userId"}).Draw(t, "uidKey"), func() any { return genInt(t, "userId") })
	case "Order":
		opt("token", func() any { return genStr(t, "token") })
		opt("user_id", func() any { return genInt(t, "userId") })
		opt(rapid.SampledFrom([]string{"item_id", "itemId"}).Draw(t, "iidKey"), func() any { return genInt(t, "itemId") })
	}
	switch rapid.IntRange(0, 9).Draw(t, "invalid") {
	case 0:
		e.Invalid = "unknown_method"
		e.Method = "Nope"
		u := genUnknownCall(t)
		e.Unknown = &u
	case 1:
		e.Invalid = "unknown_field"
		p["bogus_field"] = 1
	case 2:
		e.Invalid = "wrong_type"
		switch e.Method {
		case "Hello":
			p["name"] = notArrayIfKnown(rapid.SampledFrom([]any{map[string]any{"x": 1}, []any{"a"}, []any{"a", "b"}, 5, true}).Draw(t, "wrongName"))
		case "Auth":
			p["login"] = notArrayIfKnown(rapid.SampledFrom([]any{[]any{"a", "b"}, map[string]any{}, 7.5}).Draw(t, "wrongLogin"))
		default:
			p["user_id"] = notArrayIfKnown(rapid.SampledFrom([]any{"not-a-number", []any{1, 2}, map[string]any{"v": 1}, "1.5", 1.5, true}).Draw(t, "wrongUID"))
		}
	}
	b, _ := json.Marshal(p)
	e.Payload = string(b)
	// metadata: keys outside the reserved grpc- prefix, printable ASCII values. gRPC metadata keys are
	// case-insensitive (lower-case on the wire), and users write them the HTTP way: one key in three is written
	// Capitalised-Per-Word, UPPER-CASE or in mixed case - the entry marker too. No two keys of an entry differ in
	// case only (which of the two values would be sent is not defined).
	n := rapid.IntRange(0, 3).Draw(t, "mdN")
	e.Metadata = map[string]string{genKeyCase(t, "x-entry"): strconv.Itoa(idx)}
	lower := map[string]bool{"x-entry": true}
	for i := 0; i < n; i++ {
		k := rapid.SampledFrom([]string{"authorization", "x-request-id", "x-b3-traceid", "user-agent-x", "k1", "k2"}).Draw(t, "mdK")
		v := rapid.StringMatching(`[a-zA-Z0-9 =;,._-]{0,16}`).Draw(t, "mdV")
		if lower[k] {
			continue
		}
		lower[k] = true
		e.Metadata[genKeyCase(t, k)] = v
	}
	if e.Invalid == "" && rapid.IntRange(0, 11).Draw(t, "stall") == 0 {
		e.Stall = true
	}
	return e
}

// genKeyCase writes a lower-case metadata key the way it is written in two entries out of three, or with capitals.
func genKeyCase(t *rapid.T, k string) string {
	switch rapid.IntRange(0, 8).Draw(t, "keyCase") {
	case 0: // Authorization, X-Request-Id
		parts := strings.Split(k, "-")
		for i, p := range parts {
			if p != "" {
				parts[i] = strings.ToUpper(p[:1]) + p[1:]
			}
		}
		return strings.Join(parts, "-")
	case 1:
		return strings.ToUpper(k)
	case 2: // any letters
		b := []byte(k)
		for i := range b {
			if b[i] >= 'a' && b[i] <= 'z' && rapid.Bool().Draw(t, "upper") {
				b[i] -= 'a' - 'A'
			}
		}
		return string(b)
	}
	return k
}

func genCase(t *rapid.T) Case {
	c := Case{}
	n := rapid.IntRange(1, 8).Draw(t, "entries")
	for i := 0; i < n; i++ {
		c.Entries = append(c.Entries, genEntry(t, i))
	}
	// one file in six is longer than the provider's read-ahead (its ammo objects are recycled through a pool only
	// after ~128 entries): the drawn entries are repeated cyclically, each copy with its own entry marker
	if rapid.IntRange(0, 5).Draw(t, "long") == 0 {
		base := c.Entries
		total := rapid.IntRange(150, 400).Draw(t, "longEntries")
		for i := len(base); i < total; i++ {
			e := base[i%len(base)]
			e.Stall = false
			md := map[string]string{}
			for k, v := range e.Metadata {
				md[k] = v
				if strings.EqualFold(k, "x-entry") {
					md[k] = strconv.Itoa(i)
				}
			}
			e.Metadata = md
			c.Entries = append(c.Entries, e)
		}
		c.Long = true
	}
	c.TimeoutMs = rapid.SampledFrom([]int{150, 300, 1000}).Draw(t, "timeoutMs")
	if c.Long {
		// hundreds of calls fired at once: leave room for scheduling delays, and no stalls (4 x timeout each)
		c.TimeoutMs = 3000
		for i := range c.Entries {
			c.Entries[i].Stall = false
		}
	}
	c.SharedClient = rapid.Bool().Draw(t, "sharedClient")
	c.Instances = rapid.IntRange(1, 4).Draw(t, "instances")
	// the number of shared clients: not written (default 1), or 1-3; and in two cases out of five the reflection
	// service is on a port of its own (reflect_port), whatever the other options are
	if c.SharedClient {
		c.ClientNumber = rapid.SampledFrom([]int{-1, 1, 2, 2, 3}).Draw(t, "clientNumber")
	}
	c.ReflectPort = rapid.IntRange(0, 4).Draw(t, "reflectPort") < 2
	// several passes (never with stalling entries: every stalled call costs its full timeout)
	stalling := false
	for _, e := range c.Entries {
		stalling = stalling || e.Stall
	}
	if !stalling && rapid.IntRange(0, 2).Draw(t, "severalPasses") == 0 {
		c.Passes = rapid.IntRange(2, 3).Draw(t, "passes")
	}
	return c
}

func newReq(method string) proto.Message {
	switch method {
	case "Hello":
		return &server.HelloRequest{}
	case "Auth":
		return &server.AuthRequest{}
	case "List":
		return &server.ListRequest{}
	case "Order":
		return &server.OrderRequest{}
	}
	return nil
}

func check(c Case, o *vf.Obs) error {
	tg, mu := target.SharedGRPC()
	mu.Lock()
	defer mu.Unlock()
	stallMs := c.TimeoutMs * 4
	tg.ResetScript(func(call *target.GCall) target.GResp {
		r := target.GResp{Code: codes.OK, Hello: "h", Token: "t", UserID: 1, Items: []int64{1}, OrderID: 1}
		if v := call.MD.Get("x-entry"); len(v) == 1 {
			if i, err := strconv.Atoi(v[0]); err == nil && i < len(c.Entries) && c.Entries[i].Stall {
				r.DelayMs = stallMs
			}
		}
		return r
	})
	var sb strings.Builder
	for i, e := range c.Entries {
		var payload map[string]any
		_ = json.Unmarshal([]byte(e.Payload), &payload)
		// write the payload text verbatim so that number/string encodings survive
		fmt.Fprintf(&sb, `{"tag": "e%d", %s"metadata": %s, "payload": %s}`+"\n", i, e.callField(), mustJSON(e.Metadata), e.Payload)
	}
	name := pand.WriteFile("c20", ".json", []byte(sb.String()))
	defer pand.Remove(name)
	out := pand.TempName("c20", ".phout")
	defer pand.Remove(out)
	gun := map[string]any{"type": "grpc", "target": tg.Addr(), "timeout": fmt.Sprintf("%dms", c.TimeoutMs)}
	if c.SharedClient {
		sc := map[string]any{"enabled": true}
		if c.ClientNumber >= 0 {
			sc["client-number"] = c.clients()
		}
		gun["shared-client"] = sc
	}
	var rf *target.GRPCReflect
	if c.ReflectPort {
		rf = target.SharedGRPCReflect() // used under the shared target's lock
		rf.Reset()
		gun["reflect_port"] = rf.Port()
	}
	pool := map[string]any{
		"id": "p", "gun": gun,
		"ammo":    map[string]any{"type": "grpc/json", "file": name, "passes": c.passes()},
		"result":  map[string]any{"type": "phout", "destination": out},
		"rps":     map[string]any{"type": "once", "times": len(c.Entries)*c.passes() + 5},
		"startup": map[string]any{"type": "once", "times": c.Instances},
	}
	var conf engine.Config
	if err := pand.Decode(map[string]any{"pools": []any{pool}}, &conf); err != nil {
		return fmt.Errorf("valid pool config rejected: %v", err)
	}
	eng := engine.New(pand.NopLog(), pand.Metrics(), conf)
	var runErr error
	t0 := time.Now()
	ok, stacks := vf.Deadline(60*time.Second, func() { runErr = eng.Run(context.Background()) })
	if !ok {
		return fmt.Errorf("run did not finish in 60s\n%s", stacks)
	}
	took := time.Since(t0)
	if runErr != nil {
		return fmt.Errorf("run failed: %v", runErr)
	}
	eng.Wait()
	// ---- samples ----
	data, err := afero.ReadFile(pand.FS(), out)
	if err != nil {
		return fmt.Errorf("phout not written: %v", err)
	}
	protoByTag := map[string][]int{}
	for _, ln := range strings.Split(strings.TrimSuffix(string(data), "\n"), "\n") {
		if ln == "" {
			continue
		}
		f := strings.Split(ln, "\t")
		if len(f) != 12 {
			return fmt.Errorf("phout line with %d columns: %q", len(f), ln)
		}
		p, _ := strconv.Atoi(f[11])
		protoByTag[f[1]] = append(protoByTag[f[1]], p)
	}
	P := c.passes()
	clientTimeout := map[int]int{} // valid entries: how many of their samples say 504
	for i, e := range c.Entries {
		if ps := protoByTag[fmt.Sprintf("e%d", i)]; e.Invalid == "" && len(ps) == P {
			for _, p := range ps {
				if p == 504 {
					clientTimeout[i]++
				}
			}
		}
	}
	timedOutUnseen := 0
	// ---- reflect_port: the other port serves the reflection, the target port gets the calls ----
	if rf != nil {
		if stray := rf.Stray(); len(stray) > 0 {
			return fmt.Errorf("%d calls (first: %s) arrived at the reflection port %d; the gun's target is %s and reflect_port is only where the reflection service is (shared-client %v, %d clients, %d instances)",
				len(stray), stray[0], rf.Port(), tg.Addr(), c.SharedClient, c.clients(), c.Instances)
		}
		if rf.Streams() == 0 {
			return fmt.Errorf("reflect_port is set to %d but no reflection stream was opened on that port", rf.Port())
		}
	}
	// ---- what the server saw ----
	calls := tg.Calls()
	byEntry := map[int][]target.GCall{}
	for _, call := range calls {
		v := call.MD.Get("x-entry")
		if len(v) != 1 {
			return fmt.Errorf("server received a %s call without the entry's metadata (x-entry = %v; metadata %v)", call.Method, v, call.MD)
		}
		i, err := strconv.Atoi(v[0])
		if err != nil || i < 0 || i >= len(c.Entries) {
			return fmt.Errorf("server received metadata x-entry=%q that no ammo entry carries", v[0])
		}
		byEntry[i] = append(byEntry[i], call)
	}
	stalls, invalids := 0, 0
	for i, e := range c.Entries {
		got := byEntry[i]
		if e.Invalid != "" {
			invalids++
			if len(got) != 0 {
				return fmt.Errorf("entry %d is invalid (%s, payload %s) but the server received a call for it: %v", i, e.Invalid, e.Payload, got[0].Req)
			}
			continue
		}
		want := newReq(e.Method)
		if err := protojson.Unmarshal([]byte(e.Payload), want); err != nil {
			return fmt.Errorf("harness: reference parse of a payload meant to be valid failed: %v (%s)", err, e.Payload)
		}
		if len(got) < P && len(got)+clientTimeout[i] >= P {
			// calls ended by their own timeout on the client before the server saw them (a busy machine): the
			// property's "within the configured timeout" is not violated by that; counted, and bounded below
			timedOutUnseen += P - len(got)
		} else if len(got) != P {
			return fmt.Errorf("entry %d (%s %s): the server received %d calls, expected exactly %d (passes: %d)", i, e.Method, e.Payload, len(got), P, P)
		}
		for _, call := range got {
			if call.Method != e.Method {
				return fmt.Errorf("entry %d names method %s, the server got a call to %s", i, e.Method, call.Method)
			}
			if !proto.Equal(call.Req, want) {
				return fmt.Errorf("entry %d (%s): server received %v, the payload %s means %v", i, e.Method, call.Req, e.Payload, want)
			}
			for k, v := range e.Metadata {
				vals := call.MD.Get(k)
				if len(vals) != 1 || vals[0] != v {
					return fmt.Errorf("entry %d: metadata %s = %q at the server, ammo says %q", i, k, vals, v)
				}
			}
			if !call.HasDeadline {
				return fmt.Errorf("entry %d: call arrived without a deadline although timeout is %dms", i, c.TimeoutMs)
			}
			if call.Timeout > time.Duration(c.TimeoutMs)*time.Millisecond {
				return fmt.Errorf("entry %d: call arrived with %v left until its deadline, configured timeout is %dms", i, call.Timeout, c.TimeoutMs)
			}
		}
		if e.Stall {
			stalls++
		}
	}
	for i, e := range c.Entries {
		ps := protoByTag[fmt.Sprintf("e%d", i)]
		if len(ps) != P {
			return fmt.Errorf("entry %d: %d samples, expected exactly %d (passes: %d)\n%s", i, len(ps), P, P, data)
		}
		unseen := P - len(byEntry[i])
		for _, code := range ps {
			switch {
			case e.Invalid != "":
				if code == 200 {
					return fmt.Errorf("entry %d is invalid (%s) but its sample reports success (200)", i, e.Invalid)
				}
			case e.Stall:
				if code != 504 {
					return fmt.Errorf("entry %d: the handler stalled beyond the %dms timeout, sample code %d, expected 504", i, c.TimeoutMs, code)
				}
			default:
				if code == 504 && unseen > 0 {
					unseen-- // timed out on the client before the server saw it (counted above)
					break
				}
				if code != 200 {
					return fmt.Errorf("entry %d is valid and was answered OK but its sample code is %d", i, code)
				}
			}
		}
	}
	// stalls must end by timeout, not by the handler's delay
	perInst := (stalls + c.Instances - 1) / c.Instances
	if limit := time.Duration(stalls)*time.Duration(c.TimeoutMs)*time.Millisecond + 5*time.Second; stalls > 0 && took > limit {
		return fmt.Errorf("run took %v with %d stalled calls and timeout %dms (%d per instance): calls did not end by their timeout", took, stalls, c.TimeoutMs, perInst)
	}
	if timedOutUnseen*5 > len(c.Entries)*P {
		// more than a fifth of the calls never left the client within their timeout: the machine is too busy to judge
		o.Class("inconclusive_machine_load")
		return nil
	}
	o.ClassIf(timedOutUnseen > 0, "some_calls_timed_out_on_the_client")
	mdExtra, upperKey, upperMarker := false, false, false
	for _, e := range c.Entries {
		if len(e.Metadata) > 1 {
			mdExtra = true
		}
		for k := range e.Metadata {
			if e.Invalid == "" && k != strings.ToLower(k) {
				upperKey = true
				upperMarker = upperMarker || strings.EqualFold(k, "x-entry")
			}
		}
	}
	o.ClassIf(upperKey, "metadata_key_with_capitals")
	o.ClassIf(upperMarker, "metadata_marker_key_with_capitals")
	o.ClassIf(mdExtra, "metadata")
	o.ClassIf(c.Long, "file_longer_than_read_ahead")
	o.ClassIf(invalids > 0 && invalids < len(c.Entries), "invalid_mixed_with_valid")
	o.ClassIf(P > 1, "several_passes")
	o.ClassIf(P > 1 && len(c.Entries)*P > 140, "several_passes_beyond_the_provider_queue")
	o.ClassIf(stalls > 0, "stalled_call")
	o.ClassIf(c.Instances >= 2, "instances_ge_2")
	o.ClassIf(c.SharedClient, "shared_client")
	o.ClassIf(c.SharedClient && c.ClientNumber < 0, "shared_client_default_client_number")
	o.ClassIf(c.SharedClient && c.clients() >= 2 && c.Instances >= c.clients(), "shared_clients_ge_2_all_used")
	o.ClassIf(c.ReflectPort, "reflect_port")
	o.ClassIf(c.ReflectPort && !c.SharedClient, "reflect_port_client_per_instance")
	// every one of the N shared clients is some instance's client: whichever of them were dialled wrongly, it shows
	o.ClassIf(c.ReflectPort && c.SharedClient && c.Instances >= c.clients(), "reflect_port_shared_client_all_clients_used")
	// the shapes of unknown call names (once per case each)
	shapes := map[string]bool{}
	noDot, noDotMixed, valid := false, false, len(c.Entries)-invalids
	for _, e := range c.Entries {
		if e.Invalid != "" {
			o.Class("invalid_" + e.Invalid)
		}
		if u := e.Unknown; u != nil && !shapes[u.Shape] {
			shapes[u.Shape] = true
			o.Class("unknown_call_" + u.Shape)
		}
		if u := e.Unknown; u != nil && u.withoutDot() {
			noDot = true
			noDotMixed = valid > 0
		}
	}
	o.ClassIf(len(shapes) > 0, "unknown_call_name")
	o.ClassIf(noDot, "unknown_call_name_without_dot")
	o.ClassIf(noDotMixed, "unknown_call_name_without_dot_among_valid_entries")
	if mdExtra || (invalids > 0 && invalids < len(c.Entries)) || c.Instances >= 2 {
		o.NonTrivial()
	}
	return nil
}

func mustJSON(v any) string {
	b, _ := json.Marshal(v)
	return string(b)
}

// TestKnownWitness re-confirms the listed finding with a fixed case (strict oracle: while the finding is listed a
// failure of exactly this case is reported as KNOWN-FINDING, otherwise it is a violation like any other).
func TestKnownWitness(t *testing.T) {
	pand.Init()
	r := vf.Start(t, "C20")
	c := Case{Entries: []Entry{
		{Method: "Hello", Payload: `{"name": ["a", "b"]}`, Metadata: map[string]string{"x-entry": "0"}, Invalid: "wrong_type"},
		{Method: "Hello", Payload: `{"name": "ok"}`, Metadata: map[string]string{"x-entry": "1"}},
	}, TimeoutMs: 1000, Instances: 1}
	o := &vf.Obs{}
	err := vf.Guard(func() error { return check(c, o) })
	if err != nil && r.IsKnown(findingArrayForScalar) && strings.Contains(err.Error(), "the server received a call for it") {
		r.KnownHit(findingArrayForScalar)
		o.NonTrivial()
		r.Record(c, o, nil)
		return
	}
	o.NonTrivial()
	r.Record(c, o, err)
	if err != nil {
		t.Fatalf("%v", err)
	}
}

func TestGRPCJSON(t *testing.T) {
	pand.Init()
	r := vf.Start(t, "C20")
	curRun = r
	vf.Check(r, genCase, vf.LoadTolerant(25*time.Millisecond, check))
}
