package c20

// Call names that are NOT a method of the target ("an unknown method ... yields a failed sample for that entry and
// does not disturb other entries"): what users write by mistake comes in many shapes besides a misspelt method of the
// right service - the bare method name, the path form gRPC itself uses, a name copied with a stray dot, nothing at all.
// The gun knows methods by their fully qualified name only (docs/eng/grpc-generator.md, scenario-grpc-generator.md:
// call: 'target.TargetService.Auth'), so none of these names a method of the example service.

import (
	"strings"

	"pgregory.net/rapid"
)

// UnknownCall is a call name that no method of the target carries.
type UnknownCall struct {
	Shape string `json:"shape"`
	Name  string `json:"name"`
	// NoKey: the "call" key is not written at all (both ammo formats accept that; the name is then empty)
	NoKey bool `json:"no_key,omitempty"`
}

// withoutDot: the name has no '.' anywhere (bare names, slash forms, the empty and the missing name)
func (u UnknownCall) withoutDot() bool { return !strings.Contains(u.Name, ".") }

var knownCalls = map[string]bool{
	"target.TargetService.Hello": true, "target.TargetService.Auth": true,
	"target.TargetService.List": true, "target.TargetService.Order": true,
}

var unknownShapes = []string{
	// without any dot (first: rapid prefers the front of a list)
	"bare_method", "slashes_only", "empty", "missing_key", "unicode_bare", "long_bare", "random_bare", "service_only",
	"bare_method", "slashes_only", "empty", "missing_key",
	// with a dot
	"unknown_method_of_the_service", "unknown_service", "leading_dot", "trailing_dot", "grpc_path_form", "dots_only",
	"unicode_dotted", "long_dotted", "random_dotted",
}

func genUnknownCall(t *rapid.T) UnknownCall {
	u := UnknownCall{Shape: rapid.SampledFrom(unknownShapes).Draw(t, "unknownShape")}
	method := func() string {
		return rapid.SampledFrom([]string{"Hello", "Auth", "List", "Order", "Nope", "hello"}).Draw(t, "unknownBase")
	}
	switch u.Shape {
	case "unknown_method_of_the_service":
		u.Name = "target.TargetService." + rapid.SampledFrom([]string{"Nope", "hello", "HelloWorld", "Hell", "Auth2"}).Draw(t, "unknownMethod")
	case "unknown_service":
		u.Name = rapid.SampledFrom([]string{"nope.Nope.", "target.Target.", "TargetService.", "target.TargetService.v1.", "grpc.health.v1.Health."}).Draw(t, "unknownService") + method()
	case "leading_dot":
		u.Name = ".target.TargetService." + method()
	case "trailing_dot":
		u.Name = rapid.SampledFrom([]string{"target.TargetService.", "target.TargetService.Hello.", "target."}).Draw(t, "trailingDot")
	case "grpc_path_form":
		u.Name = rapid.SampledFrom([]string{"/target.TargetService/", "target.TargetService/"}).Draw(t, "pathForm") + method()
	case "dots_only":
		u.Name = rapid.SampledFrom([]string{".", "..", "..."}).Draw(t, "dots")
	case "unicode_dotted":
		u.Name = rapid.SampledFrom([]string{"цель.Сервис.Привет", "target.TargetService.Привет", "目標.サービス.Hello", "target.TargetService.Héllo"}).Draw(t, "unicodeDotted")
	case "long_dotted":
		n := rapid.IntRange(300, 4000).Draw(t, "longLen")
		if rapid.Bool().Draw(t, "longManyDots") {
			u.Name = strings.Repeat("pkg.", n/4) + method()
		} else {
			u.Name = "target.TargetService." + strings.Repeat("A", n)
		}
	case "random_dotted":
		u.Name = rapid.StringMatching(`[A-Za-z/_]{0,8}\.[A-Za-z./_]{0,12}`).Draw(t, "randomDotted")
	case "bare_method":
		u.Name = method()
	case "service_only":
		u.Name = rapid.SampledFrom([]string{"TargetService", "target", "target:TargetService:Hello", "target TargetService Hello"}).Draw(t, "serviceOnly")
	case "slashes_only":
		u.Name = rapid.SampledFrom([]string{"target/TargetService/", "/target/TargetService/", "TargetService/", "/"}).Draw(t, "slashForm") + method()
	case "empty":
		u.Name = ""
	case "missing_key":
		u.NoKey = true
	case "unicode_bare":
		u.Name = rapid.SampledFrom([]string{"Привет", "日本", "цель/Сервис/Привет", "Héllo"}).Draw(t, "unicodeBare")
	case "long_bare":
		u.Name = "Hello" + strings.Repeat(rapid.SampledFrom([]string{"o", "/x", "Я"}).Draw(t, "longUnit"), rapid.IntRange(300, 4000).Draw(t, "longLen"))
	case "random_bare":
		u.Name = rapid.StringMatching(`[A-Za-z/:_-]{1,24}`).Draw(t, "randomBare")
	}
	if knownCalls[u.Name] {
		u.Name += "_"
	}
	return u
}
